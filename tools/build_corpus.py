"""One-off corpus extraction (run by hand; output committed under /verif/corpus).

Collects every TEAL program reachable from /repo/tests: the .teal files and every string in the
globals of the test modules (recursively through lists/tuples/dicts) that contains a
'#pragma version' line.  Programs are de-duplicated by content and written as
corpus/teal/<nnn>_<origin>.teal plus corpus/index.json with provenance.
"""
import hashlib, importlib, json, logging, os, pkgutil, sys
REPO = os.environ.get("TEALER_SRC", "/repo")
sys.path.insert(0, REPO)
os.chdir(REPO)
logging.disable(logging.CRITICAL)
OUT = os.path.join(os.path.dirname(os.path.dirname(os.path.abspath(__file__))), "corpus")

found = {}  # sha -> (text, origin)

def add(text, origin):
    t = text.strip() + "\n"
    h = hashlib.sha256(t.encode()).hexdigest()
    if h not in found:
        found[h] = (t, origin)

def walk(obj, origin, depth=0, seen=None):
    if seen is None:
        seen = set()
    if id(obj) in seen or depth > 6:
        return
    seen.add(id(obj))
    if isinstance(obj, str):
        if "#pragma version" in obj and "\n" in obj:
            add(obj, origin)
    elif isinstance(obj, (list, tuple, set)):
        for x in obj:
            walk(x, origin, depth + 1, seen)
    elif isinstance(obj, dict):
        for x in obj.values():
            walk(x, origin, depth + 1, seen)

for root, _d, files in sorted(os.walk("tests")):
    for f in sorted(files):
        if f.endswith(".teal"):
            p = os.path.join(root, f)
            add(open(p, encoding="utf-8").read(), p)

import tests
mods = []
for m in pkgutil.walk_packages(tests.__path__, "tests."):
    mods.append(m.name)
for name in sorted(mods):
    try:
        mod = importlib.import_module(name)
    except BaseException as e:  # noqa
        print("skip", name, type(e).__name__, e)
        continue
    for k in sorted(vars(mod)):
        if k.startswith("__"):
            continue
        walk(vars(mod)[k], f"{name}:{k}")

items = sorted(found.items(), key=lambda kv: (kv[1][1], kv[0]))
os.makedirs(os.path.join(OUT, "teal"), exist_ok=True)
index = []
for n, (h, (text, origin)) in enumerate(items):
    fn = f"t{n:03d}.teal"
    with open(os.path.join(OUT, "teal", fn), "w", encoding="utf-8") as f:
        f.write(text)
    index.append({"id": f"t{n:03d}", "file": f"teal/{fn}", "origin": origin, "sha256": h,
                  "lines": text.count("\n")})
json.dump(index, open(os.path.join(OUT, "index.json"), "w"), indent=1)
print(len(index), "programs")
