"""One-off: adds hand-written (h###) and seeded generated (g###) contracts to /verif/corpus.

These are *workload* for the history / order / fault search (leaks through shared state are
value-specific, so varied direct checks make a leak observable).  They are not offered as a
decision procedure for per-program properties.  Run by hand; output is committed.
"""
import hashlib
import json
import os
import random

V = os.path.dirname(os.path.dirname(os.path.abspath(__file__)))
OUT = os.path.join(V, "corpus")
ADDR1 = "6ZIOGDXGSQSL4YINHLKCHYRV64FSN4LTUIQ6A4VWYK36FXFF42VI2UV7SM"
ADDR2 = "5V2KYGC366NJNMIFLQOER2RUTZGYJSDXH7CLJUCDB7DZAMCDRM3YUHF4OM"

HAND = {}
HAND["h000"] = ("re-joining dispatch branches (DESIGN §3.3 minimal input)", """
#pragma version 6
txn ApplicationID
bz create
txn OnCompletion
int NoOp
==
bnz call
err
create:
int 0
b done
call:
int 1
b done
done:
return
""")
HAND["h001"] = ("two methods, each calling its own subroutine, both calling a shared helper that checks RekeyTo", """
#pragma version 7
txn OnCompletion
int NoOp
==
assert
txna ApplicationArgs 0
byte "a"
==
bnz method_a
txna ApplicationArgs 0
byte "b"
==
bnz method_b
err
method_a:
callsub sub_a
int 1
return
method_b:
callsub sub_b
int 1
return
sub_a:
txn Fee
int 2000
<=
assert
callsub helper
retsub
sub_b:
txn CloseRemainderTo
global ZeroAddress
==
assert
callsub helper
retsub
helper:
txn RekeyTo
global ZeroAddress
==
assert
retsub
""")
HAND["h002"] = ("recursive subroutine with a group-size check inside", """
#pragma version 7
int 5
callsub fact
pop
global GroupSize
int 3
<
assert
int 1
return
fact:
dup
int 0
==
bnz fact_base
dup
int 1
-
callsub fact
*
retsub
fact_base:
pop
txn GroupIndex
int 2
!=
assert
int 1
retsub
""")
HAND["h003"] = ("main calls s1 then s2; both call s3 (two return points, shared callee)", """
#pragma version 7
callsub s1
callsub s2
gtxn 0 RekeyTo
global ZeroAddress
==
assert
int 1
return
s1:
global GroupSize
int 4
<=
assert
callsub s3
retsub
s2:
txn GroupIndex
int 1
>=
assert
callsub s3
retsub
s3:
txn AssetCloseTo
global ZeroAddress
==
assert
retsub
""")
HAND["h004"] = ("four-way dispatcher whose methods re-join in a common tail calling a shared subroutine; != on GroupIndex / GroupSize", """
#pragma version 7
txn NumAppArgs
int 0
==
bnz bare
txna ApplicationArgs 0
byte "m1"
==
bnz m1
txna ApplicationArgs 0
byte "m2"
==
bnz m2
txna ApplicationArgs 0
byte "m3"
==
bnz m3
err
bare:
txn OnCompletion
int UpdateApplication
!=
assert
txn OnCompletion
int DeleteApplication
!=
assert
b tail
m1:
txn GroupIndex
int 0
!=
assert
b tail
m2:
global GroupSize
int 16
!=
assert
global GroupSize
int 2
>
assert
b tail
m3:
int 3
txn GroupIndex
>
assert
tail:
callsub common
int 1
return
common:
txn RekeyTo
global ZeroAddress
==
txn Fee
int 1000
==
&&
assert
retsub
""")
HAND["h005"] = ("loop in main code with a subroutine called inside the loop", """
#pragma version 7
int 0
store 0
loop:
load 0
int 3
<
bz end
load 0
int 1
+
store 0
callsub body
b loop
end:
txn TypeEnum
int pay
==
assert
int 1
return
body:
txn CloseRemainderTo
addr %s
==
assert
retsub
""" % ADDR1)
HAND["h006"] = ("logic-sig style: fee, close-to, rekey with || and !", """
#pragma version 6
txn Fee
int 10000
<
txn RekeyTo
global ZeroAddress
==
&&
assert
txn TypeEnum
int axfer
==
bnz asset
txn CloseRemainderTo
global ZeroAddress
==
txn CloseRemainderTo
addr %s
==
||
assert
int 1
return
asset:
txn AssetCloseTo
global ZeroAddress
!=
!
assert
int 1
return
""" % ADDR2)
HAND["h007"] = ("callsub as the last main instruction; the subroutine never returns", """
#pragma version 7
txn GroupIndex
int 0
==
assert
callsub finish
finish:
global GroupSize
int 1
==
assert
int 1
return
""")
HAND["h008"] = ("malformed: unknown opcode", """
#pragma version 6
int 1
frobnicate 3
return
""")
HAND["h009"] = ("malformed: branch to an undefined label", """
#pragma version 6
int 1
bnz nowhere
int 1
return
""")
HAND["h010"] = ("on-completion checks in the dispatcher and again in the methods; sender check", """
#pragma version 7
txn ApplicationID
int 0
==
bnz creation
txn OnCompletion
int DeleteApplication
==
bnz del
txn OnCompletion
int UpdateApplication
==
bnz upd
txn OnCompletion
int NoOp
==
bnz noop
err
creation:
int 1
return
del:
txn Sender
global CreatorAddress
==
assert
int 1
return
upd:
int 0
return
noop:
callsub check_group
int 1
return
check_group:
global GroupSize
int 2
==
assert
gtxn 1 RekeyTo
global ZeroAddress
==
assert
gtxn 1 TypeEnum
int pay
==
assert
retsub
""")
HAND["h011"] = ("three-level nesting; the same subroutine called twice in a row and from a nested callee", """
#pragma version 7
callsub outer
callsub inner
callsub inner
int 1
return
outer:
callsub middle
retsub
middle:
callsub inner
txn Fee
int 5000
<=
assert
retsub
inner:
txn GroupIndex
int 3
<
assert
global GroupSize
int 6
<=
assert
retsub
""")
HAND["h012"] = ("dispatcher with shared validation inside the dispatcher blocks and a diamond before the methods", """
#pragma version 7
txn RekeyTo
global ZeroAddress
==
assert
txn NumAppArgs
int 1
==
bnz one
txn NumAppArgs
int 2
==
bnz two
err
one:
txn Fee
int 3000
<=
bz bad
b join
two:
global GroupSize
int 3
==
bz bad
join:
txna ApplicationArgs 0
btoi
bnz left
callsub tailcheck
int 1
return
left:
callsub tailcheck
int 1
return
bad:
err
tailcheck:
txn CloseRemainderTo
global ZeroAddress
==
assert
retsub
""")
HAND["h013"] = ("optimisation-detector findings (txna Accounts 0) in main code and in two subroutines called from main: the order of the findings follows the order of Function.blocks", """
#pragma version 7
callsub first
callsub second
txna Accounts 0
pop
int 1
return
first:
txna Accounts 0
global CurrentApplicationAddress
==
assert
retsub
second:
txna Accounts 0
gtxn 0 Sender
==
assert
txn GroupIndex
int 0
==
assert
retsub
""")
HAND["h014"] = ("as h013 with three subroutines, nested calls and gtxn-with-constant-index / self-access patterns", """
#pragma version 7
callsub alpha
callsub beta
callsub gamma
gtxn 0 Sender
txna Accounts 0
==
assert
int 1
return
alpha:
txna Accounts 0
pop
callsub gamma
retsub
beta:
txn GroupIndex
int 0
==
assert
gtxn 0 RekeyTo
global ZeroAddress
==
assert
txna Accounts 0
pop
retsub
gamma:
txna Accounts 0
pop
global CurrentApplicationID
app_params_get AppAddress
pop
pop
retsub
""")
HAND["h015"] = ("optimisation-detector findings in both branches of conditionals and inside a loop: block construction order differs from block-id order", """
#pragma version 7
txn NumAppArgs
bz no_args
txna Accounts 0
pop
int 0
gtxns Sender
pop
b join
no_args:
txna Accounts 0
pop
txn GroupIndex
gtxns Receiver
pop
join:
int 0
store 0
again:
load 0
int 2
<
bz done
int 1
gtxns RekeyTo
global ZeroAddress
==
assert
txna Accounts 0
pop
load 0
int 1
+
store 0
b again
done:
txn GroupIndex
gtxns CloseRemainderTo
global ZeroAddress
==
bnz ok
err
ok:
txna Accounts 0
pop
int 1
return
""")
HAND["h016"] = ("three methods pinning different GroupIndex / GroupSize / OnCompletion values, all calling one shared subroutine that reads gtxn fields and calls a nested helper", """
#pragma version 7
txna ApplicationArgs 0
byte "a"
==
bnz method_a
txna ApplicationArgs 0
byte "b"
==
bnz method_b
txna ApplicationArgs 0
byte "c"
==
bnz method_c
err
method_a:
txn GroupIndex
int 0
==
assert
global GroupSize
int 2
==
assert
callsub shared
int 1
return
method_b:
txn GroupIndex
int 1
==
assert
txn OnCompletion
int NoOp
==
assert
callsub shared
int 1
return
method_c:
txn GroupIndex
int 2
>=
assert
txn Fee
int 1000
<=
assert
callsub shared
callsub helper
int 1
return
shared:
gtxn 0 RekeyTo
global ZeroAddress
==
assert
gtxn 1 CloseRemainderTo
global ZeroAddress
==
assert
callsub helper
retsub
helper:
txn RekeyTo
global ZeroAddress
==
assert
gtxn 1 TypeEnum
int pay
==
assert
retsub
""")
HAND["h017"] = ("as h016 for a logic-sig: branches on TypeEnum with different index pins share a subroutine checking fee and close-to through gtxn of the own index", """
#pragma version 6
txn TypeEnum
int pay
==
bnz pay_branch
txn TypeEnum
int axfer
==
bnz axfer_branch
err
pay_branch:
txn GroupIndex
int 0
==
assert
callsub common_checks
int 1
return
axfer_branch:
txn GroupIndex
int 1
==
assert
callsub common_checks
txn AssetCloseTo
global ZeroAddress
==
assert
int 1
return
common_checks:
gtxn 0 Fee
int 2000
<=
assert
gtxn 1 Fee
int 3000
<=
assert
gtxn 0 CloseRemainderTo
global ZeroAddress
==
assert
txn RekeyTo
global ZeroAddress
==
assert
retsub
""")
HAND["h019"] = ("the last method ends with a callsub and falls through into the block the other methods jump to: the return point of a caller that a dispatch path cuts away is a block the function keeps", """
#pragma version 7
txna ApplicationArgs 0
byte "a"
==
bnz method_a
txna ApplicationArgs 0
byte "b"
==
bnz method_b
err
method_a:
txn RekeyTo
global ZeroAddress
==
assert
txn Fee
int 1000
<=
bnz done
err
method_b:
txn OnCompletion
int NoOp
==
assert
callsub check
done:
global GroupSize
int 1
==
assert
int 1
return
check:
txn RekeyTo
global ZeroAddress
==
assert
txn CloseRemainderTo
global ZeroAddress
==
assert
retsub
""")
HAND["h020"] = ("logic-sig with a six-way dispatcher; every case checks the RekeyTo of the transaction at a constant index through gtxns", """
#pragma version 5
txn Fee
int 1000
<=
assert
""" + "".join("arg 0\nbtoi\nint %d\n==\nbnz case_%d\n" % (k, k) for k in range(6)) + "err\n" + "".join(
    "case_%d:\nint 0\ngtxns RekeyTo\nglobal ZeroAddress\n==\nassert\nint 1\nreturn\n" % k for k in range(6)))
for _n, _url in (("h021", "https://example.org/metadata/a.json"), ("h022", "https://example.org/metadata/b.json")):
    HAND[_n] = ("string literals that contain the comment marker // (URLs) and a ; — lexical edge cases; h021/h022 differ only after the //", """
#pragma version 6
txn ApplicationID
bz create
txn OnCompletion
int NoOp
==
assert
byte "%s" // asset url
log
byte "a;b//c"
len
pop
txn RekeyTo
global ZeroAddress
==
assert
int 1
return
create:
byte "%s"
log
txn Sender
global CreatorAddress
==
assert
int 1
return
""" % (_url, _url))
_ADDRS12 = [
    "6ZIOGDXGSQSL4YINHLKCHYRV64FSN4LTUIQ6A4VWYK36FXFF42VI2UV7SM", "5V2KYGC366NJNMIFLQOER2RUTZGYJSDXH7CLJUCDB7DZAMCDRM3YUHF4OM",
    "AAAAAAAAAAAAAAAAAAAAAAAAAAAAAAAAAAAAAAAAAAAAEVAL4QAJS7JHB4", "AAAAAAAAAAAAAAAAAAAAAAAAAAAAAAAAAAAAAAAAAAAAAAAAAAAAY5HFKQ",
    "BBBBBBBBBBBBBBBBBBBBBBBBBBBBBBBBBBBBBBBBBBBBBBBBBBBBBBBBBY", "CCCCCCCCCCCCCCCCCCCCCCCCCCCCCCCCCCCCCCCCCCCCCCCCCCCCCCCCCY",
    "DDDDDDDDDDDDDDDDDDDDDDDDDDDDDDDDDDDDDDDDDDDDDDDDDDDDDDDDDY", "EEEEEEEEEEEEEEEEEEEEEEEEEEEEEEEEEEEEEEEEEEEEEEEEEEEEEEEEEY",
    "FFFFFFFFFFFFFFFFFFFFFFFFFFFFFFFFFFFFFFFFFFFFFFFFFFFFFFFFFY", "GGGGGGGGGGGGGGGGGGGGGGGGGGGGGGGGGGGGGGGGGGGGGGGGGGGGGGGGGY",
    "HHHHHHHHHHHHHHHHHHHHHHHHHHHHHHHHHHHHHHHHHHHHHHHHHHHHHHHHHY", "IIIIIIIIIIIIIIIIIIIIIIIIIIIIIIIIIIIIIIIIIIIIIIIIIIIIIIIIIY",
]
HAND["h023"] = ("allow-list: RekeyTo must be one of twelve addresses (== joined by ||), CloseRemainderTo one of three", "#pragma version 6\n"
    + "".join("txn RekeyTo\naddr %s\n==\n%s" % (a, "" if i == 0 else "||\n") for i, a in enumerate(_ADDRS12)) + "assert\n"
    + "".join("txn CloseRemainderTo\naddr %s\n==\n%s" % (a, "" if i == 0 else "||\n") for i, a in enumerate(_ADDRS12[:3])) + "assert\n"
    + "txn Fee\nint 2000\n<=\nassert\nint 1\nreturn\n")
HAND["h024"] = ("TEAL 8 logic-sig dispatching with switch to four cases and with match, none of which validates RekeyTo or CloseRemainderTo", """
#pragma version 8
txn Fee
int 1000
<=
assert
arg 0
btoi
switch case_a case_b case_c case_d
err
case_a:
txn TypeEnum
int pay
==
return
case_b:
txn Amount
int 100
<
return
case_c:
txn GroupIndex
int 0
==
assert
int 7
int 9
arg 1
btoi
match m_seven m_nine
int 0
return
case_d:
global GroupSize
int 2
==
return
m_seven:
int 1
return
m_nine:
txn Receiver
txn Sender
==
return
""")


def deep_chain(n):
    """n blocks in a row (each `bnz` to the next line starts a new block): the recursive DFS of the
    analysis exceeds the default recursion limit, so `single` ends with RecursionError in a fresh
    process — a consistently failing input that tells whether something left the limit changed."""
    lines = ["#pragma version 6", "txn RekeyTo", "global ZeroAddress", "==", "assert"]
    for i in range(n):
        lines += ["int 1", "bnz c%d" % i, "err", "c%d:" % i]
    lines += ["int 1", "return"]
    return "\n".join(lines) + "\n"


HAND["h018"] = ("deep chain of 1100 conditional blocks: RecursionError in the analysis at the default recursion limit (consistently failing input)", deep_chain(1100))

# ---------------------------------------------------------------------------- generator
CMP = ["==", "!=", "<", "<=", ">", ">="]


def int_check(rng):
    kind = rng.choice(["gs", "gi", "fee", "oc", "type"])
    op = rng.choice(CMP)
    if kind == "gs":
        a, b = "global GroupSize", "int %d" % rng.choice([1, 2, 3, 4, 8, 15, 16])
    elif kind == "gi":
        a, b = "txn GroupIndex", "int %d" % rng.choice([0, 1, 2, 3, 7, 15])
    elif kind == "fee":
        a, b = "txn Fee", "int %d" % rng.choice([0, 1000, 2000, 10000])
        op = rng.choice(["==", "<=", "<", ">=", "!="])
    elif kind == "oc":
        a, b = "txn OnCompletion", "int " + rng.choice(["NoOp", "OptIn", "CloseOut", "UpdateApplication", "DeleteApplication"])
        op = rng.choice(["==", "!="])
    else:
        a, b = "txn TypeEnum", "int " + rng.choice(["pay", "axfer", "appl", "keyreg", "acfg", "afrz"])
        op = rng.choice(["==", "!="])
    if rng.random() < 0.4:
        a, b = b, a
    return [a, b, op]


def addr_check(rng):
    g = rng.random() < 0.3
    field = rng.choice(["RekeyTo", "CloseRemainderTo", "AssetCloseTo", "Sender"])
    a = ("gtxn %d %s" % (rng.choice([0, 1, 2]), field)) if g else ("txn " + field)
    b = rng.choice(["global ZeroAddress", "addr " + ADDR1, "addr " + ADDR2, "global CreatorAddress"])
    op = rng.choice(["==", "==", "!="])
    if rng.random() < 0.3:
        a, b = b, a
    return [a, b, op]


def atom(rng):
    return int_check(rng) if rng.random() < 0.6 else addr_check(rng)


def cond(rng, depth=0):
    r = rng.random()
    if depth >= 2 or r < 0.55:
        return atom(rng)
    if r < 0.75:
        return cond(rng, depth + 1) + cond(rng, depth + 1) + ["&&"]
    if r < 0.9:
        return cond(rng, depth + 1) + cond(rng, depth + 1) + ["||"]
    return cond(rng, depth + 1) + ["!"]


def opt_pattern(rng):
    r = rng.random()
    if r < 0.4:
        return ["txna Accounts 0", "pop"]
    if r < 0.7:
        return ["int %d" % rng.choice([0, 1, 2]), "gtxns " + rng.choice(["Sender", "RekeyTo", "Receiver"]), "pop"]
    return ["txn GroupIndex", "gtxns " + rng.choice(["Sender", "CloseRemainderTo", "Fee"]), "pop"]


def checks(rng, n, label_gen):
    out = []
    for _ in range(n):
        if rng.random() < 0.18:
            out += opt_pattern(rng)
        c = cond(rng)
        r = rng.random()
        if r < 0.6:
            out += c + ["assert"]
        elif r < 0.8:
            lab = label_gen()
            out += c + ["bnz " + lab, "err", lab + ":"]
        else:
            lab = label_gen()
            out += c + ["bz " + lab, "int 1", "pop", lab + ":"]
    return out


def program(rng):
    version = rng.choice([6, 7, 8])
    counter = [0]

    def lab():
        counter[0] += 1
        return "L%d" % counter[0]

    nsubs = rng.choice([0, 0, 1, 2, 3, 4])
    nmeth = rng.choice([1, 1, 2, 3, 4])
    subs = ["sub%d" % i for i in range(nsubs)]
    lines = ["#pragma version %d" % version]
    lines += checks(rng, rng.choice([0, 0, 1, 2]), lab)
    rejoin = rng.random() < 0.4 and nmeth > 1
    for m in range(nmeth - 1):
        lines += ["txna ApplicationArgs 0", 'byte "m%d"' % m, "==", "bnz meth%d" % m]
    # last method is the fall-through
    order = list(range(nmeth))
    bodies = {}
    for m in order:
        body = checks(rng, rng.choice([0, 1, 2, 3]), lab)
        for s in subs:
            if rng.random() < 0.45:
                body.append("callsub " + s)
        if rng.random() < 0.25:
            l1, l2 = lab(), lab()
            body += ["int 0", "store 1", l1 + ":", "load 1", "int 2", "<", "bz " + l2]
            if subs and rng.random() < 0.5:
                body.append("callsub " + rng.choice(subs))
            body += ["load 1", "int 1", "+", "store 1", "b " + l1, l2 + ":"]
        body += checks(rng, rng.choice([0, 1]), lab)
        bodies[m] = body
    last = nmeth - 1
    lines += bodies[last]
    lines += ["b tail"] if rejoin else ["int 1", "return"]
    fall_through = None
    if rejoin and rng.random() < 0.5:
        fall_through = rng.randrange(nmeth - 1)  # this method is laid out last and falls into tail
    order_m = [m for m in range(nmeth - 1) if m != fall_through] + ([fall_through] if fall_through is not None else [])
    for m in order_m:
        lines.append("meth%d:" % m)
        lines += bodies[m]
        if m == fall_through:
            if subs:
                lines.append("callsub " + rng.choice(subs))
            continue
        lines += ["b tail"] if rejoin else ["int 1", "return"]
    if rejoin:
        lines.append("tail:")
        lines += checks(rng, rng.choice([0, 1]), lab)
        if subs and rng.random() < 0.6:
            lines.append("callsub " + rng.choice(subs))
        lines += ["int 1", "return"]
    for i, s in enumerate(subs):
        lines.append(s + ":")
        lines += checks(rng, rng.choice([1, 1, 2]), lab)
        for t in subs[i + 1 :]:
            if rng.random() < 0.4:
                lines.append("callsub " + t)
        if rng.random() < 0.1:
            lines.append("callsub " + s)  # direct recursion
        lines.append("retsub")
    return "\n".join(lines) + "\n"


def twin(text, rng):
    """A contract identical to `text` line for line except for one token (None if no edit applies)."""
    lines = text.split("\n")
    edits = []
    for i, l in enumerate(lines):
        t = l.strip()
        w = t.split()
        if not w or t.startswith("//"):
            continue
        if w[0] in ("intcblock", "bytecblock") and len(w) > 2:
            edits.append((i, "rotate " + w[0], l.replace(" ".join(w[1:]), " ".join(w[2:] + w[1:2]))))
        elif w[0] in ("int", "pushint") and len(w) >= 2:
            alt = {"NoOp": "OptIn", "OptIn": "NoOp", "UpdateApplication": "DeleteApplication", "DeleteApplication": "UpdateApplication",
                   "CloseOut": "NoOp", "pay": "axfer", "axfer": "pay", "appl": "pay", "0": "1", "1": "0", "2": "3"}.get(w[1])
            if alt is None and w[1].isdigit():
                alt = str(int(w[1]) + 1)
            if alt is not None:
                edits.append((i, "operand %s -> %s" % (w[1], alt), l.replace(w[1], alt, 1)))
        elif t in ("==", "!=", "<", "<=", ">", ">="):
            alt = {"==": "!=", "!=": "==", "<": "<=", "<=": "<", ">": ">=", ">=": ">"}[t]
            edits.append((i, "operator %s -> %s" % (t, alt), l.replace(t, alt, 1)))
        elif t == "global ZeroAddress":
            edits.append((i, "ZeroAddress -> CreatorAddress", l.replace("ZeroAddress", "CreatorAddress")))
    if not edits:
        return None, None
    blockish = [e for e in edits if e[1].startswith("rotate")]
    i, what, new = rng.choice(blockish) if blockish and rng.random() < 0.8 else rng.choice(edits)
    lines[i] = new
    return "\n".join(lines), "line %d: %s" % (i + 1, what)


def main():
    idx_path = os.path.join(OUT, "index.json")
    index = [e for e in json.load(open(idx_path)) if e["id"].startswith("t")]
    for hid in sorted(HAND):
        desc, text = HAND[hid]
        text = text.strip() + "\n"
        with open(os.path.join(OUT, "teal", hid + ".teal"), "w") as f:
            f.write(text)
        entry = {"id": hid, "file": "teal/%s.teal" % hid, "origin": "handwritten: " + desc,
                 "sha256": hashlib.sha256(text.encode()).hexdigest(), "lines": text.count("\n")}
        if hid == "h022":
            entry["twin_of"] = "h021"
        index.append(entry)
    rng = random.Random(20260923)
    for n in range(64):
        text = program(rng)
        gid = "g%03d" % n
        with open(os.path.join(OUT, "teal", gid + ".teal"), "w") as f:
            f.write(text)
        index.append({"id": gid, "file": "teal/%s.teal" % gid, "origin": "generated: tools/gen_programs.py seed=20260923 #%d" % n,
                      "sha256": hashlib.sha256(text.encode()).hexdigest(), "lines": text.count("\n")})
    # twins: same text and line numbers as an existing contract except for one token, so that
    # anything remembered from the one under a key made of text / lines / ids is wrong for the other
    trng = random.Random(20260924)
    base = [e for e in index if e["lines"] <= 400]
    with_blocks = [e for e in base if "intcblock" in open(os.path.join(OUT, e["file"])).read()]
    chosen = with_blocks[:30] + trng.sample([e for e in base if e not in with_blocks], 50)
    n = 0
    for e in chosen:
        text = open(os.path.join(OUT, e["file"])).read()
        tw, what = twin(text, trng)
        if tw is None or tw == text:
            continue
        wid = "w%03d" % n
        n += 1
        with open(os.path.join(OUT, "teal", wid + ".teal"), "w") as f:
            f.write(tw)
        index.append({"id": wid, "file": "teal/%s.teal" % wid, "origin": "twin of %s: %s" % (e["id"], what), "twin_of": e["id"],
                      "sha256": hashlib.sha256(tw.encode()).hexdigest(), "lines": tw.count("\n")})
    # index twins: every constant group index pushed right before a gtxns-family instruction moved
    # by one (two revisions of one contract that check another transaction of the group)
    m = 0
    for e in [x for x in index if x["id"][0] in "thg" and x["lines"] <= 400]:
        lines = open(os.path.join(OUT, e["file"])).read().split("\n")
        changed = 0
        for i in range(len(lines) - 1):
            w = lines[i].split()
            nxt = lines[i + 1].split()
            if len(w) == 2 and w[0] in ("int", "pushint") and w[1].isdigit() and nxt and nxt[0] in ("gtxns", "gtxnsa", "gtxnsas"):
                lines[i] = lines[i].replace(w[1], str((int(w[1]) + 1) % 16), 1)
                changed += 1
        if not changed or m >= 16:
            continue
        # second revision: the index is no longer a constant (read from scratch space)
        lines2 = open(os.path.join(OUT, e["file"])).read().split("\n")
        for i in range(len(lines2) - 1):
            w = lines2[i].split()
            nxt = lines2[i + 1].split()
            if len(w) == 2 and w[0] in ("int", "pushint") and w[1].isdigit() and nxt and nxt[0] in ("gtxns", "gtxnsa", "gtxnsas"):
                lines2[i] = lines2[i].replace(" ".join(w), "load 7", 1)
        tw2 = "\n".join(lines2)
        yid = "y%03d" % m
        with open(os.path.join(OUT, "teal", yid + ".teal"), "w") as f:
            f.write(tw2)
        index.append({"id": yid, "file": "teal/%s.teal" % yid, "origin": "twin of %s: %d constant gtxns indices replaced by load 7" % (e["id"], changed), "twin_of": e["id"],
                      "sha256": hashlib.sha256(tw2.encode()).hexdigest(), "lines": tw2.count("\n")})
        tw = "\n".join(lines)
        wid = "x%03d" % m
        m += 1
        with open(os.path.join(OUT, "teal", wid + ".teal"), "w") as f:
            f.write(tw)
        index.append({"id": wid, "file": "teal/%s.teal" % wid, "origin": "twin of %s: %d constant gtxns indices +1" % (e["id"], changed), "twin_of": e["id"],
                      "sha256": hashlib.sha256(tw.encode()).hexdigest(), "lines": tw.count("\n")})
    json.dump(index, open(idx_path, "w"), indent=1)
    print(len(index), "programs")


if __name__ == "__main__":
    main()
