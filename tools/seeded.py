"""Bookkeeping for the seeded breaking changes kept under /verif/seeded/<id>/.

  tools/seeded.py import <agent-out-dir>/changeN <id> <property> <origin>
        copy patch.diff, the demonstration and the author's notes
  tools/seeded.py verify <id> [--no-suite]
        in a fresh scratch git worktree of /repo (removed afterwards): demonstration passes on the
        clean tree, patch applies, demonstration fails with it, the pinned suite still passes
  tools/seeded.py merge <snapshot of /verif>
        take over the detection records written by a background pass (vp run) in its snapshot
  tools/seeded.py detect <id> [--tier quick] [--check C14]
        run the property's check from /verif against a scratch worktree with the patch applied
        (TEALER_SRC), evidence/replays redirected to a scratch directory; record the outcome
Nothing is ever applied to /repo itself.
"""
import argparse
import glob
import json
import os
import shutil
import subprocess
import sys
import tempfile
import time

V = os.path.dirname(os.path.dirname(os.path.abspath(__file__)))
PY = "/venv/bin/python"


def sh(cmd, cwd=None, env=None, timeout=None):
    p = subprocess.run(cmd, cwd=cwd, env=env, capture_output=True, text=True, timeout=timeout, check=False)
    return p.returncode, p.stdout, p.stderr


def meta_path(i):
    return os.path.join(V, "seeded", i, "meta.json")


def load(i):
    return json.load(open(meta_path(i)))


def save(i, m):
    json.dump(m, open(meta_path(i), "w"), indent=1)


def demo_name(d):
    for n in ("demo.py", "demo_test.py"):
        if os.path.exists(os.path.join(d, n)):
            return n
    raise SystemExit("no demo in " + d)


def worktree():
    d = tempfile.mkdtemp(prefix="seeded-wt-")
    os.rmdir(d)
    rc, o, e = sh(["git", "-C", "/repo", "worktree", "add", "-q", "--detach", d, "HEAD"])
    if rc != 0:
        raise SystemExit("worktree add failed: " + e)
    return d


def drop(d):
    sh(["git", "-C", "/repo", "worktree", "remove", "--force", d])
    shutil.rmtree(d, ignore_errors=True)
    sh(["git", "-C", "/repo", "worktree", "prune"])


def revert_commits(wt, commits):
    """Bring the scratch worktree back to the tree a change was written against (a later `fix:`
    commit in /repo removed the freedom the change depends on)."""
    for c in commits or []:
        rc, o, e = sh(["bash", "-c", f"git show {c} -- tealer | git apply -R"], cwd=wt)
        if rc != 0:
            raise SystemExit(f"cannot revert {c}: {e}")


def cmd_import(a):
    dst = os.path.join(V, "seeded", a.id)
    os.makedirs(dst, exist_ok=True)
    for f in glob.glob(os.path.join(a.src, "*")):
        if os.path.isfile(f):
            shutil.copy(f, dst)
    m = {"id": a.id, "property": a.prop, "origin": a.origin, "needs": "", "ran": {}}
    notes = os.path.join(dst, "notes.md")
    if os.path.exists(notes):
        m["author_notes_file"] = "notes.md"
    save(a.id, m)
    print("imported", a.id)


def run_demo(d, demo, cwd):
    env = dict(os.environ)
    env.pop("TEALER_VERIF", None)
    env["PYTHONPATH"] = cwd
    shutil.copy(os.path.join(d, demo), os.path.join(cwd, demo))
    try:
        rc, o, e = sh([PY, demo], cwd=cwd, env=env, timeout=1800)
    finally:
        os.unlink(os.path.join(cwd, demo))
    return rc, (o + e)[-600:]


def cmd_verify(a):
    d = os.path.join(V, "seeded", a.id)
    m = load(a.id)
    demo = demo_name(d)
    wt = worktree()
    try:
        revert_commits(wt, m.get("against_tree_before"))
        rc_clean, out_clean = run_demo(d, demo, wt)
        rc, o, e = sh(["git", "apply", os.path.join(d, "patch.diff")], cwd=wt)
        if rc != 0:
            raise SystemExit("patch does not apply: " + e)
        rc, o, e = sh([PY, "-c", "import logging; logging.disable(50); import tealer.__main__"], cwd=wt, env={**os.environ, "PYTHONPATH": wt})
        imports = rc == 0
        rc_patched, out_patched = run_demo(d, demo, wt)
        suite = None
        if not a.no_suite:
            t0 = time.time()
            env = dict(os.environ)
            env.pop("TEALER_VERIF", None)
            rc, o, e = sh([PY, "-m", "pytest", "-q", "-p", "no:cacheprovider", "--timeout=900", "-n", "6"], cwd=wt, env=env, timeout=3600)
            tail = [l for l in o.splitlines() if "passed" in l or "failed" in l][-1:]
            suite = {"exit": rc, "summary": tail[0] if tail else o[-200:], "wall_s": round(time.time() - t0)}
        m["ran"]["verify"] = {
            "head": sh(["git", "-C", "/repo", "rev-parse", "--short", "HEAD"])[1].strip(),
            "demo": demo,
            "demo_clean_exit": rc_clean,
            "demo_patched_exit": rc_patched,
            "demo_patched_tail": out_patched[-300:],
            "imports": imports,
            "suite": suite,
            "cmds": [
                "git -C /repo worktree add --detach <wt> HEAD",
                f"cd <wt> && /venv/bin/python {demo}   # clean -> exit {rc_clean}",
                "git apply patch.diff",
                f"cd <wt> && /venv/bin/python {demo}   # patched -> exit {rc_patched}",
                "cd <wt> && /venv/bin/python -m pytest -q -p no:cacheprovider --timeout=900 -n 6",
            ],
        }
        ok = rc_clean == 0 and rc_patched != 0 and imports and (suite is None or (suite["exit"] == 0))
        m["confirmed"] = bool(ok) if suite is not None else m.get("confirmed", None)
        save(a.id, m)
        print(a.id, "clean", rc_clean, "patched", rc_patched, "imports", imports, "suite", suite)
    finally:
        drop(wt)


def cmd_detect(a):
    d = os.path.join(V, "seeded", a.id)
    m = load(a.id)
    prop = a.check or m["property"]
    wt = worktree()
    scratch = tempfile.mkdtemp(prefix="seeded-ev-")
    try:
        revert_commits(wt, m.get("against_tree_before"))
        rc, o, e = sh(["git", "apply", os.path.join(d, "patch.diff")], cwd=wt)
        if rc != 0:
            raise SystemExit("patch does not apply: " + e)
        env = dict(os.environ)
        env["TEALER_SRC"] = wt
        env["SIM_REPLAY_DIR"] = os.path.join(scratch, "replays")
        env["SIM_EVIDENCE_DIR"] = os.path.join(scratch, "evidence")
        for kv in a.env or []:
            k, v = kv.split("=", 1)
            env[k] = v
        t0 = time.time()
        rc, o, e = sh([PY, "-m", "sim.check", prop, "--tier", a.tier], cwd=V, env=env, timeout=6 * 3600)
        lines = [l for l in o.splitlines() if l.startswith("VIOLATION") or l.strip().startswith("kind=") or l.startswith("HARNESS")]
        rec = {
            "check": prop,
            "tier": a.tier,
            "env": a.env or [],
            "exit": rc,
            "detected": rc == 1 and any(l.startswith("VIOLATION") for l in lines),
            "report": [l.replace(scratch, "<scratch>") for l in lines][:8],
            "wall_s": round(time.time() - t0),
            "verif_commit": sh(["git", "-C", V, "rev-parse", "--short", "HEAD"])[1].strip(),
        }
        # keep one minimised replay next to the patch for the record
        reps = sorted(glob.glob(os.path.join(scratch, "replays", "*.json")))
        if reps and rec["detected"]:
            shutil.copy(reps[0], os.path.join(d, "replay-" + prop + ".json"))
        m["ran"].setdefault("detect", []).append(rec)
        save(a.id, m)
        print(a.id, prop, a.tier, "exit", rc, "detected", rec["detected"], rec["report"][:3], rec["wall_s"], "s")
        if rc not in (0, 1):
            print(o[-1500:], e[-1500:])
    finally:
        drop(wt)
        shutil.rmtree(scratch, ignore_errors=True)


def cmd_merge(a):
    """Copy the detection records (and kept replay files) that a `vp run` snapshot of /verif wrote
    into its own seeded/<id>/meta.json over to /verif's."""
    for mp in sorted(glob.glob(os.path.join(a.snapshot, "seeded", "*", "meta.json"))):
        i = os.path.basename(os.path.dirname(mp))
        if not os.path.exists(meta_path(i)):
            continue
        theirs = json.load(open(mp))
        mine = load(i)
        have = {json.dumps(r, sort_keys=True) for r in mine["ran"].get("detect", [])}
        new = [r for r in theirs.get("ran", {}).get("detect", []) if json.dumps(r, sort_keys=True) not in have]
        if new:
            for r in new:
                r["from_snapshot"] = True
            mine["ran"].setdefault("detect", []).extend(new)
            save(i, mine)
            for f in glob.glob(os.path.join(os.path.dirname(mp), "replay-*.json")):
                dst = os.path.join(V, "seeded", i, os.path.basename(f))
                if not os.path.exists(dst):
                    shutil.copy(f, dst)
            print("merged", i, len(new), [r["detected"] for r in new])


def main():
    ap = argparse.ArgumentParser()
    sub = ap.add_subparsers(dest="cmd", required=True)
    p = sub.add_parser("import")
    p.add_argument("src"); p.add_argument("id"); p.add_argument("prop"); p.add_argument("origin")
    p = sub.add_parser("verify")
    p.add_argument("id"); p.add_argument("--no-suite", action="store_true")
    p = sub.add_parser("detect")
    p.add_argument("id"); p.add_argument("--tier", default="quick"); p.add_argument("--check"); p.add_argument("--env", action="append")
    p = sub.add_parser("merge")
    p.add_argument("snapshot")
    a = ap.parse_args()
    {"import": cmd_import, "verify": cmd_verify, "detect": cmd_detect, "merge": cmd_merge}[a.cmd](a)


if __name__ == "__main__":
    main()
