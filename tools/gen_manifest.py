"""Writes /verif/MANIFEST.json (kept as a script so the not_applicable reasons live in one place)."""
import json, os, subprocess
V = os.path.dirname(os.path.dirname(os.path.abspath(__file__)))
NA = {
 "C01": "Soundness of detector verdicts is a relation between one program and the set of groups the AVM approves: a pure function of the program text. Nothing for a scheduler or fault injector to vary; deciding it needs an AVM reference semantics and program enumeration (another technique).",
 "C02": "Well-formedness of reported paths is a structural predicate on the output of one deterministic DFS over one graph: pure function of the program; no schedule, clock, fault or history enters.",
 "C03": "Precision on the direct-check fragment: as C01, a pure relation between program text and AVM-approved groups.",
 "C04": "parse_teal is a pure text-to-graph function and the executions quantified over are the AVM's, not tealer's; no nondeterminism or fault surface in the relation.",
 "C05": "Subroutine/call-site/return-point tables are a pure function of the program text.",
 "C06": "Soundness/exactness of GroupSize/GroupIndex sets needs concrete AVM executions as oracle; the solver is sequential and its only schedule freedom (set-iteration-induced worklist order) is already decided under C14.",
 "C07": "As C06 for transaction-kind sets: pure function of the program; needs an AVM oracle.",
 "C08": "As C06 for address fields: pure function of the program; needs an AVM oracle.",
 "C09": "As C06 for the fee bound: pure function of the program; needs an AVM oracle.",
 "C10": "As C06 for gtxn/absolute/relative contexts: pure function of the program; needs an AVM oracle.",
 "C11": "Reconstructed operands vs the AVM's: pure function of a straight-line instruction sequence.",
 "C13": "The 'group' is static data read from YAML; members are analysed one after another with no communication or evolving shared state, so there are no parties to schedule; the verdict is a pure function of (config, contracts).",
 "C15": "Invariance under source rewrites is a relation between two pure runs on two inputs (metamorphic testing), not a schedule/fault property.",
 "C16": "Line parser / printer round trip is a pure string function.",
 "C17": "Completion of every output mode on every valid contract varies the program layout, not a schedule or fault; CLI runs occur in C14/C18 sessions only as workload, and an internal error that also occurs in the pristine reference is consistent and is not judged there.",
 "C19": "Version/mode/cost reporting vs the AVM tables: pure table lookups over the program.",
 "C20": "The regex engine is one deterministic DFS over the instruction graph: pure function of (program, pattern).",
}
def hook_commits():
    try:
        out = subprocess.run(["git", "-C", "/repo", "log", "--format=%H %s"], capture_output=True, text=True).stdout
        return [l.split()[0] for l in out.splitlines() if "verif hook" in l]
    except Exception:
        return []
CHECKS = json.load(open(os.path.join(V, "tools", "checks.json"))) if os.path.exists(os.path.join(V, "tools", "checks.json")) else []
m = {
 "version": 1,
 "setup_cmd": "/venv/bin/python -m sim.setup",
 "hooks": {
  "guard": "TEALER_VERIF",
  "enable": "checks launch every session interpreter with TEALER_VERIF=1 and PYTHONPATH=$TEALER_SRC (default /repo, the working tree) so tealer is imported from the current sources with the ordering seam active; nothing is built",
  "baseline_off_cmd": "cd /repo && env -u TEALER_VERIF /venv/bin/python -m pytest -ra -q -p no:cacheprovider --timeout=900 --continue-on-collection-errors",
  "source_commits": hook_commits(),
  "add_only": True,
 },
 "engines": [{"name": "session-simulator", "path": "sim/", "serves_properties": [c["property_id"] for c in CHECKS],
   "kind_free_text": "deterministic simulation of a client session in one interpreter per session: seeded operation/fault sequences, ASLR-off fresh interpreters, PYTHONHASHSEED and set-iteration order owned by the simulator, refinement against the pristine single-operation execution"}],
 "checks": CHECKS,
 "notes": "See DESIGN.md. Exit codes of checks: 0 held, 1 VIOLATION (replay file written), 2 harness error.",
 "not_applicable": [{"property_id": k, "reason": v} for k, v in sorted(NA.items()) if k not in {c["property_id"] for c in CHECKS}],
}
claimed = {c["property_id"] for c in CHECKS}
for pid, reason in (("C12", "check not built yet (planned: exploration, DESIGN §3)"), ("C14", "check not built yet (planned: exploration, DESIGN §4)"), ("C18", "check not built yet (planned: fault_enumeration of the JSON envelope sentence, DESIGN §5)")):
    if pid not in claimed:
        m["not_applicable"].append({"property_id": pid, "reason": reason})
json.dump(m, open(os.path.join(V, "MANIFEST.json"), "w"), indent=1)
print("checks:", sorted(claimed), "not_applicable:", len(m["not_applicable"]))
