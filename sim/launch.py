"""Process model (DESIGN §2.2, §2.3 A1).

Every session and every reference runs in its own interpreter process that has analysed nothing
before: a forked child of a per-PYTHONHASHSEED zygote (sim.zygote) which is itself started with
ASLR off (`setarch -R`), a sanitised fixed environment, TEALER_VERIF=1 and byte-code loaded from a
run-scoped cache filled before any session starts.  SIM_MODE=exec switches to one exec'd
interpreter per session (slower here; kept as a cross-check of the fork model).
"""

import itertools
import json
import os
import shutil
import signal
import subprocess
import sys
import tempfile
import threading
import time
from concurrent.futures import ThreadPoolExecutor
from typing import Any, Dict, Iterable, List, Optional, Tuple

VERIF = os.path.dirname(os.path.dirname(os.path.abspath(__file__)))
PYTHON = "/venv/bin/python"
CORPUS = os.path.join(VERIF, "corpus", "teal")
MAX_ZYGOTES = 48


def tealer_src() -> str:
    return os.environ.get("TEALER_SRC", "/repo").rstrip("/")


class HarnessError(Exception):
    pass


class Zygote:
    def __init__(self, runner: "Runner", hashseed: int) -> None:
        self.hashseed = hashseed
        self.runner = runner
        cmd = [PYTHON, "-X", "faulthandler", "-s", "-m", "sim.zygote"]
        if runner.aslr:
            cmd = ["setarch", os.uname().machine, "-R"] + cmd
        self.proc = subprocess.Popen(  # pylint: disable=consider-using-with
            cmd,
            stdin=subprocess.PIPE,
            stdout=subprocess.PIPE,
            stderr=subprocess.PIPE,
            env=runner.env(hashseed),
            # an always-empty directory: with `-m` the cwd becomes sys.path[0] and the import
            # system caches its listing, which must not depend on which sessions exist right now
            cwd=runner.zcwd,
        )
        self.lock = threading.Lock()
        self.waiters: Dict[int, threading.Event] = {}
        self.pids: Dict[int, int] = {}
        self.ready = threading.Event()
        self.dead = False
        self.last_used = 0
        self.reader = threading.Thread(target=self._read, daemon=True)
        self.reader.start()
        if not self.ready.wait(120):
            err = b""
            try:
                self.proc.kill()
                err = self.proc.stderr.read() if self.proc.stderr else b""
            except Exception:  # pylint: disable=broad-except
                pass
            raise HarnessError("zygote did not start: " + err.decode("utf-8", "replace")[-2000:])

    def _read(self) -> None:
        assert self.proc.stdout is not None
        for raw in self.proc.stdout:
            parts = raw.split()
            if len(parts) < 2:
                continue
            tag = parts[0]
            if tag == b"R":
                self.ready.set()
            elif tag == b"S" and len(parts) >= 3:
                self.pids[int(parts[1])] = int(parts[2])
            elif tag == b"D":
                ev = self.waiters.get(int(parts[1]))
                if ev is not None:
                    ev.set()
        self.dead = True
        self.ready.set()
        for ev in list(self.waiters.values()):
            ev.set()

    def submit(self, num: int, timeout: float) -> Tuple[bool, bool]:
        """-> (finished, timed_out)"""
        ev = threading.Event()
        self.waiters[num] = ev
        with self.lock:
            assert self.proc.stdin is not None
            self.proc.stdin.write(b"%08d\n" % num)
            self.proc.stdin.flush()
        deadline = time.time() + timeout
        finished = False
        while time.time() < deadline:
            if ev.wait(0.5):
                finished = not self.dead or num not in self.pids or True
                break
            pid = self.pids.get(num)
            if pid is not None and not _alive(pid):
                # the child is gone without a D line (killed by a signal)
                ev.wait(0.2)
                break
        timed_out = False
        if not ev.is_set():
            pid = self.pids.get(num)
            if pid is not None and _alive(pid):
                timed_out = True
                try:
                    os.kill(pid, signal.SIGKILL)
                except OSError:
                    pass
        self.waiters.pop(num, None)
        self.pids.pop(num, None)
        return ev.is_set() and finished, timed_out

    def close(self) -> None:
        try:
            if self.proc.stdin:
                self.proc.stdin.close()
            self.proc.wait(5)
        except Exception:  # pylint: disable=broad-except
            try:
                self.proc.kill()
            except Exception:  # pylint: disable=broad-except
                pass


def _alive(pid: int) -> bool:
    try:
        os.kill(pid, 0)
    except OSError:
        return False
    try:
        with open(f"/proc/{pid}/stat", encoding="utf-8") as f:
            return f.read().split(")")[-1].split()[0] != "Z"
    except OSError:
        return False


class Runner:
    """Owns the run-scoped scratch tree: <run>/pyc (byte-code cache) and <run>/s<nnnnnnnn> (one
    directory per session, removed when the session ends)."""

    def __init__(self, workers: int = 16, src: Optional[str] = None) -> None:
        self.src = (src or tealer_src()).rstrip("/")
        self.workers = workers
        self.mode = os.environ.get("SIM_MODE", "fork")
        base = os.environ.get("SIM_TMP", tempfile.gettempdir())
        # fixed-length directory name: the environment block is copied into the interpreter at
        # start-up and its size must not vary between runs
        fixed = os.path.join(base, "tsim-%08d" % os.getpid())
        n = 0
        while os.path.exists(fixed):
            n += 1
            fixed = os.path.join(base, "tsim-%08d" % ((os.getpid() + n * 4194304) % 100000000))
        os.makedirs(fixed)
        self.run_dir = fixed
        self.pyc = os.path.join(self.run_dir, "pyc")
        os.makedirs(self.pyc)
        self.zcwd = os.path.join(self.run_dir, "zcwd")
        os.makedirs(self.zcwd)
        self._counter = itertools.count(1)
        self.sessions_run = 0
        self.aslr = shutil.which("setarch") is not None
        self.corpus = CORPUS
        self._prepared = False
        self._prep_lock = threading.Lock()
        self.zygotes: Dict[int, Zygote] = {}
        self._zlock = threading.Lock()
        self.zygotes_started = 0
        self._tick = itertools.count(1)

    # ------------------------------------------------------------------
    def env(self, hashseed: int, scratch: str = "") -> Dict[str, str]:
        e = {
            "PATH": "/usr/bin:/bin",
            "HOME": "/nonexistent",
            "LANG": "C.UTF-8",
            "PYTHONHASHSEED": "%010d" % hashseed,
            "TEALER_VERIF": "1",
            "TEALER_SRC": self.src,
            "PYTHONPATH": self.src + ":" + VERIF,
            "PYTHONPYCACHEPREFIX": self.pyc,
            "SIM_BASE": self.run_dir,
            "SIM_CORPUS": self.corpus,
            "TEALER_ROOT_OUTPUT_DIR": "out",
        }
        if scratch:
            e["SIM_SCRATCH"] = scratch
        return e

    def prepare(self) -> None:
        """Fill the byte-code cache: compileall for tealer and sim, then a warm-up interpreter that
        imports everything a session can import, so no session ever compiles a module."""
        with self._prep_lock:
            if self._prepared:
                return
            env = dict(os.environ)
            env["PYTHONPYCACHEPREFIX"] = self.pyc
            for d in (os.path.join(self.src, "tealer"), os.path.join(VERIF, "sim")):
                subprocess.run(
                    [PYTHON, "-m", "compileall", "-q", d],
                    env=env,
                    check=False,
                    stdout=subprocess.DEVNULL,
                    stderr=subprocess.DEVNULL,
                )
            for _ in range(2):
                p = subprocess.run(
                    [PYTHON, "-s", "-c", "from sim import session; session.preload()"],
                    env=self.env(0),
                    capture_output=True,
                    check=False,
                )
                if p.returncode != 0:
                    raise HarnessError("warm-up import failed: " + p.stderr.decode("utf-8", "replace")[-3000:])
            self._prepared = True

    # ------------------------------------------------------------------
    def zygote(self, hashseed: int) -> Zygote:
        with self._zlock:
            z = self.zygotes.get(hashseed)
            if z is not None and not z.dead:
                z.last_used = next(self._tick)
                return z
            if len(self.zygotes) >= MAX_ZYGOTES:
                idle = sorted((zz.last_used, h) for h, zz in self.zygotes.items() if not zz.waiters)
                for _lu, h in idle[: max(1, len(idle) // 2)]:
                    self.zygotes.pop(h).close()
            z = Zygote(self, hashseed)
            self.zygotes_started += 1
            z.last_used = next(self._tick)
            self.zygotes[hashseed] = z
            return z

    def run(self, spec: Dict[str, Any], hashseed: int, timeout: float = 300.0) -> Dict[str, Any]:
        """Run one session in an interpreter of its own; returns {"events":[...], "done":bool, ...}."""
        self.prepare()
        num = next(self._counter) % 100000000
        scratch = os.path.join(self.run_dir, "s%08d" % num)
        os.makedirs(scratch)
        self.sessions_run += 1
        t0 = time.time()
        timed_out = False
        stderr = b""
        try:
            # header line, then one operation per line: the session parses an operation only when it
            # is about to run it, so what the first k operations do never depends on what follows
            # them (cutting a session after an operation is neutral for everything before the cut)
            with open(os.path.join(scratch, "spec.json"), "w", encoding="utf-8") as f:
                f.write(json.dumps({k: v for k, v in spec.items() if k != "ops"}) + "\n")
                for op in spec["ops"]:
                    f.write(json.dumps(op) + "\n")
            if self.mode == "exec":
                cmd = [PYTHON, "-X", "faulthandler", "-s", "-m", "sim.session"]
                if self.aslr:
                    cmd = ["setarch", os.uname().machine, "-R"] + cmd
                try:
                    p = subprocess.run(
                        cmd,
                        env=self.env(hashseed, scratch),
                        stdout=subprocess.PIPE,
                        stderr=subprocess.PIPE,
                        timeout=timeout,
                        cwd=scratch,
                        check=False,
                    )
                    stderr = p.stderr
                except subprocess.TimeoutExpired:
                    timed_out = True
            else:
                _fin, timed_out = self.zygote(hashseed).submit(num, timeout)
            text = ""
            outp = os.path.join(scratch, "out.jsonl")
            if os.path.exists(outp):
                with open(outp, encoding="utf-8", errors="replace") as f:
                    text = f.read()
        finally:
            shutil.rmtree(scratch, ignore_errors=True)
        events: List[Dict[str, Any]] = []
        done = False
        res: Dict[str, Any] = {}
        for line in text.splitlines():
            line = line.strip()
            if not line:
                continue
            try:
                obj = json.loads(line)
            except ValueError:
                continue
            if "harness_error" in obj:
                res["harness_error"] = obj["harness_error"]
                res["trace"] = obj.get("trace", "")
            elif obj.get("done"):
                done = True
            elif "i" in obj:
                events.append(obj)
        res.update({"events": events, "done": done, "timed_out": timed_out, "wall": time.time() - t0})
        if not done and not timed_out and "harness_error" not in res:
            res["died"] = "interpreter exited before the session finished " + stderr.decode("utf-8", "replace")[-1500:]
        return res

    def run_many(
        self, jobs: Iterable[Tuple[Any, Dict[str, Any], int]], timeout: float = 300.0
    ) -> Iterable[Tuple[Any, Dict[str, Any]]]:
        """jobs: (tag, spec, hashseed) -> yields (tag, result) in submission order (so that
        nothing downstream depends on completion order)."""
        self.prepare()
        with ThreadPoolExecutor(max_workers=self.workers) as ex:
            futs = []
            for tag, spec, hs in jobs:
                futs.append((tag, ex.submit(self.run, spec, hs, timeout)))
            for tag, fut in futs:
                yield tag, fut.result()

    def close(self) -> None:
        for z in list(self.zygotes.values()):
            z.close()
        self.zygotes = {}
        shutil.rmtree(self.run_dir, ignore_errors=True)

    def __enter__(self) -> "Runner":
        return self

    def __exit__(self, *a: Any) -> None:
        self.close()


if __name__ == "__main__":
    # manual use: python -m sim.launch spec.json [hashseed]
    with Runner(workers=1) as r:
        spec_ = json.load(open(sys.argv[1], encoding="utf-8"))
        print(json.dumps(r.run(spec_, int(sys.argv[2]) if len(sys.argv) > 2 else 0), indent=1))
