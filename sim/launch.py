"""Process model (DESIGN §2.2, §2.3 A1): one brand-new interpreter per session and per
reference, ASLR off, sanitised fixed environment, chosen PYTHONHASHSEED, byte-code loaded from a
run-scoped cache that is filled before any session starts."""

import itertools
import json
import os
import shutil
import subprocess
import sys
import tempfile
import time
from concurrent.futures import ThreadPoolExecutor
from typing import Any, Dict, Iterable, List, Optional, Tuple

VERIF = os.path.dirname(os.path.dirname(os.path.abspath(__file__)))
PYTHON = "/venv/bin/python"
CORPUS = os.path.join(VERIF, "corpus", "teal")


def tealer_src() -> str:
    return os.environ.get("TEALER_SRC", "/repo").rstrip("/")


class HarnessError(Exception):
    pass


class Runner:
    """Owns the run-scoped scratch tree: <run>/pyc (byte-code cache) and <run>/s<nnnnnn> (one
    directory per session, removed when the session ends)."""

    def __init__(self, workers: int = 16, src: Optional[str] = None) -> None:
        self.src = (src or tealer_src()).rstrip("/")
        self.workers = workers
        base = os.environ.get("SIM_TMP", tempfile.gettempdir())
        self.run_dir = tempfile.mkdtemp(prefix="tsim-", dir=base)
        # fixed-length directory name: the environment block is copied into the interpreter at
        # start-up and its size must not vary between runs
        fixed = os.path.join(base, "tsim-%08d" % os.getpid())
        if os.path.exists(fixed):
            shutil.rmtree(fixed, ignore_errors=True)
        os.rename(self.run_dir, fixed)
        self.run_dir = fixed
        self.pyc = os.path.join(self.run_dir, "pyc")
        os.makedirs(self.pyc)
        self._counter = itertools.count(1)
        self.sessions_run = 0
        self.aslr = shutil.which("setarch") is not None
        self.corpus = CORPUS
        self.extra_corpus = os.path.join(self.run_dir, "corpus")
        self._prepared = False

    # ------------------------------------------------------------------
    def env(self, hashseed: int, scratch: str) -> Dict[str, str]:
        return {
            "PATH": "/usr/bin:/bin",
            "HOME": "/nonexistent",
            "LANG": "C.UTF-8",
            "PYTHONHASHSEED": "%010d" % hashseed,
            "TEALER_VERIF": "1",
            "TEALER_SRC": self.src,
            "PYTHONPATH": self.src + ":" + VERIF,
            "PYTHONPYCACHEPREFIX": self.pyc,
            "SIM_SCRATCH": scratch,
            "SIM_CORPUS": self.corpus,
            "TEALER_ROOT_OUTPUT_DIR": "out",
        }

    def argv(self) -> List[str]:
        cmd = [PYTHON, "-X", "faulthandler", "-s", "-m", "sim.session"]
        if self.aslr:
            cmd = ["setarch", os.uname().machine, "-R"] + cmd
        return cmd

    def prepare(self) -> None:
        """Fill the byte-code cache: compileall for tealer and sim, then a warm-up session run
        twice so that every third-party / stdlib module the sessions import is cached too."""
        if self._prepared:
            return
        env = dict(os.environ)
        env["PYTHONPYCACHEPREFIX"] = self.pyc
        for d in (os.path.join(self.src, "tealer"), os.path.join(VERIF, "sim")):
            subprocess.run(
                [PYTHON, "-m", "compileall", "-q", d],
                env=env,
                check=False,
                stdout=subprocess.DEVNULL,
                stderr=subprocess.DEVNULL,
            )
        warm = {
            "ops": [
                {"op": "info"},
                {"op": "single", "c": "t000", "dets": [], "runs": []},
                {"op": "cli", "c": "t000", "argv": ["--json", "-", "detect", "--contracts", "{C}"]},
                {"op": "printer", "c": "t000", "name": "human-summary"},
            ]
        }
        for _ in range(2):
            out = self.run(warm, 0, timeout=120)
            if "harness_error" in out:
                raise HarnessError("warm-up session failed: " + out["harness_error"] + "\n" + out.get("trace", ""))
        self._prepared = True

    # ------------------------------------------------------------------
    def run(self, spec: Dict[str, Any], hashseed: int, timeout: float = 300.0) -> Dict[str, Any]:
        """Run one session in a fresh interpreter; returns {"events":[...], "done":bool, ...}."""
        scratch = os.path.join(self.run_dir, "s%06d" % (next(self._counter) % 1000000))
        os.makedirs(scratch, exist_ok=True)
        self.sessions_run += 1
        t0 = time.time()
        try:
            try:
                p = subprocess.run(
                    self.argv(),
                    input=json.dumps(spec).encode(),
                    env=self.env(hashseed, scratch),
                    stdout=subprocess.PIPE,
                    stderr=subprocess.PIPE,
                    timeout=timeout,
                    cwd=scratch,
                    check=False,
                )
                stdout, stderr, rc, timed_out = p.stdout, p.stderr, p.returncode, False
            except subprocess.TimeoutExpired as e:
                stdout, stderr, rc, timed_out = e.stdout or b"", e.stderr or b"", None, True
        finally:
            shutil.rmtree(scratch, ignore_errors=True)
        events: List[Dict[str, Any]] = []
        done = False
        res: Dict[str, Any] = {}
        for line in stdout.decode("utf-8", "replace").splitlines():
            line = line.strip()
            if not line:
                continue
            try:
                obj = json.loads(line)
            except ValueError:
                continue
            if "harness_error" in obj:
                res["harness_error"] = obj["harness_error"]
                res["trace"] = obj.get("trace", "")
            elif obj.get("done"):
                done = True
            elif "i" in obj:
                events.append(obj)
        res.update({"events": events, "done": done, "timed_out": timed_out, "rc": rc, "wall": time.time() - t0})
        if not done and not timed_out and "harness_error" not in res:
            # the interpreter died (segfault, os._exit, ...) — keep the tail of stderr
            res["died"] = stderr.decode("utf-8", "replace")[-2000:]
        return res

    def run_many(
        self, jobs: Iterable[Tuple[Any, Dict[str, Any], int]], timeout: float = 300.0
    ) -> Iterable[Tuple[Any, Dict[str, Any]]]:
        """jobs: (tag, spec, hashseed) -> yields (tag, result) in submission order (so that
        nothing downstream depends on completion order)."""
        self.prepare()
        with ThreadPoolExecutor(max_workers=self.workers) as ex:
            futs = []
            for tag, spec, hs in jobs:
                futs.append((tag, ex.submit(self.run, spec, hs, timeout)))
            for tag, fut in futs:
                yield tag, fut.result()

    def close(self) -> None:
        shutil.rmtree(self.run_dir, ignore_errors=True)

    def __enter__(self) -> "Runner":
        return self

    def __exit__(self, *a: Any) -> None:
        self.close()


if __name__ == "__main__":
    # manual use: python -m sim.launch spec.json [hashseed]
    with Runner(workers=1) as r:
        r.prepare()
        spec_ = json.load(open(sys.argv[1]))
        print(json.dumps(r.run(spec_, int(sys.argv[2]) if len(sys.argv) > 2 else 0), indent=1))
