"""Structural clauses of C12 as step invariants on one built function (DESIGN §3.1(3)).

`check_structure(teal, function, path)` returns a list of human-readable clause failures
(empty = all clauses hold).  Runs inside the session interpreter, uses only public attributes.
"""

from typing import Any, Dict, List, Set

from sim.observe import block_key


def _is_err_block(bb: Any) -> bool:
    return (
        len(bb.instructions) == 1 and type(bb.instructions[0]).__name__ == "TealerCustomErrInstruction"
    )


def _ins(bb: Any) -> List[Any]:
    return [[i.line, str(i)] for i in bb.instructions]


# pylint: disable=too-many-locals,too-many-branches,too-many-statements
def check_structure(teal: Any, function: Any, path: List[str]) -> List[str]:
    bad: List[str] = []
    path_ids = [int(p[1:]) for p in path]
    k = len(path_ids) - 1

    orig: Dict[int, Any] = {}
    for bb in teal.main.blocks:
        orig[bb.idx] = bb

    fmain = list(function.main.blocks)
    real: Dict[int, Any] = {}
    errs: List[Any] = []
    for bb in fmain:
        if _is_err_block(bb):
            errs.append(bb)
        else:
            if bb.idx in real:
                bad.append(f"main part holds two blocks with id B{bb.idx}")
            real[bb.idx] = bb

    # --- which original main blocks must be present: reachability from B0 in the original main
    # graph where every path block before Bk keeps only its on-path successor.
    expected: Set[int] = set()
    stack = [path_ids[0]]
    prefix_pos = {pid: i for i, pid in enumerate(path_ids[:-1])}
    while stack:
        cur = stack.pop()
        if cur in expected or cur not in orig:
            continue
        expected.add(cur)
        if cur in prefix_pos:
            nxt = path_ids[prefix_pos[cur] + 1]
            succ = [b.idx for b in orig[cur].next if b.idx == nxt]
        else:
            succ = [b.idx for b in orig[cur].next]
        stack.extend(succ)
    if set(real) != expected:
        missing = sorted(expected - set(real))
        extra = sorted(set(real) - expected)
        bad.append(f"main block ids differ from the path's executions: missing={missing} extra={extra}")

    if k == 0:
        if set(real) != set(orig):
            bad.append("path [B0]: main block ids differ from the contract's main graph")
        if errs:
            bad.append(f"path [B0]: {len(errs)} error block(s) present")

    # --- instruction text / line numbers of every retained block
    for idx in sorted(set(real) & set(orig)):
        if _ins(real[idx]) != _ins(orig[idx]):
            bad.append(f"B{idx}: instruction text/line numbers differ from the contract's block")

    # --- successors
    for idx in sorted(set(real) & set(orig)):
        fb = real[idx]
        ob = orig[idx]
        fnext = list(fb.next)
        onext = list(ob.next)
        if len(fnext) != len(onext):
            bad.append(f"B{idx}: successor count {len(fnext)} != original {len(onext)}")
            continue
        on_path_before_k = idx in prefix_pos
        for pos, (fn_, on_) in enumerate(zip(fnext, onext)):
            if on_path_before_k and on_.idx != path_ids[prefix_pos[idx] + 1]:
                if not _is_err_block(fn_) or fn_.idx in real and real[fn_.idx] is fn_:
                    bad.append(
                        f"B{idx}: departure at successor position {pos} (to B{on_.idx}) "
                        f"does not lead to an error block"
                    )
            else:
                if _is_err_block(fn_) and not _is_err_block(on_):
                    bad.append(f"B{idx}: on-path/unaffected successor B{on_.idx} replaced by an error block")
                elif fn_.idx != on_.idx:
                    bad.append(f"B{idx}: successor position {pos} is B{fn_.idx}, original B{on_.idx}")
                elif real.get(fn_.idx) is not fn_:
                    bad.append(f"B{idx}: successor B{fn_.idx} is not the function's own block")

    for eb in errs:
        if eb.next:
            bad.append(f"error block {block_key(eb)} has successors")

    # --- subroutines = call closure of the main part, each with the contract's ids and edges
    closure: List[str] = []
    work = [bb for bb in fmain]
    seen_subs: Set[str] = set()
    while work:
        bb = work.pop()
        if bb.is_callsub_block:
            sub = bb.called_subroutine
            if sub.name not in seen_subs:
                seen_subs.add(sub.name)
                closure.append(sub.name)
                work.extend(sub.blocks)
    if set(function.subroutines) != seen_subs:
        bad.append(
            f"subroutine set {sorted(function.subroutines)} != call closure {sorted(seen_subs)}"
        )
    for name in sorted(function.subroutines):
        fsub = function.subroutines[name]
        csub = teal.subroutines.get(name)
        if csub is None:
            bad.append(f"subroutine {name} is not a subroutine of the contract")
            continue
        fg = sorted((block_key(b), _ins(b), [block_key(n) for n in b.next]) for b in fsub.blocks)
        cg = sorted((block_key(b), _ins(b), [block_key(n) for n in b.next]) for b in csub.blocks)
        if fg != cg:
            bad.append(f"subroutine {name}: blocks/edges differ from the contract's subroutine")
        if block_key(fsub.entry) != block_key(csub.entry):
            bad.append(f"subroutine {name}: entry differs")

    # --- per-function call tables: callers of a subroutine are the function's own callsub blocks,
    # return points the blocks that follow them (a cut-away caller contributes neither)
    for name in sorted(function.subroutines):
        fsub = function.subroutines[name]
        want_callers = [b for b in function.blocks if b.is_callsub_block and b.called_subroutine is fsub]
        got_callers = list(function.caller_blocks(fsub))
        if sorted(id(b) for b in want_callers) != sorted(id(b) for b in got_callers):
            bad.append(
                f"subroutine {name}: caller table {sorted(block_key(b) for b in got_callers)} != "
                f"the function's callsub blocks {sorted(block_key(b) for b in want_callers)}"
            )
        want_rp = [b.next[0] for b in want_callers if len(b.next) == 1]
        got_rp = list(function.return_point_blocks(fsub))
        if sorted(id(b) for b in want_rp) != sorted(id(b) for b in got_rp):
            bad.append(
                f"subroutine {name}: return points {sorted(block_key(b) for b in got_rp)} != "
                f"successors of the function's callers {sorted(block_key(b) for b in want_rp)}"
            )

    # --- function.blocks = main part + subroutine blocks; next/prev mirror inside the function
    fblocks = list(function.blocks)
    inside = set(id(b) for b in fblocks)
    want = set(id(b) for b in fmain)
    for name in function.subroutines:
        want |= set(id(b) for b in function.subroutines[name].blocks)
    if inside != want:
        bad.append("function.blocks is not main part + subroutine blocks")
    if len(inside) != len(fblocks):
        bad.append("function.blocks lists a block twice")
    for b in fblocks:
        for n in b.next:
            if id(n) not in inside:
                bad.append(f"{block_key(b)}: successor {block_key(n)} outside the function")
            elif not any(p is b for p in n.prev):
                bad.append(f"{block_key(b)} -> {block_key(n)}: not mirrored in prev")
        for p in b.prev:
            if id(p) not in inside:
                bad.append(f"{block_key(b)}: predecessor {block_key(p)} outside the function")
            elif not any(n is b for n in p.next):
                bad.append(f"{block_key(p)} <- {block_key(b)}: not mirrored in next")
    if function.entry is not real.get(path_ids[0]):
        bad.append("function.entry is not the function's copy of the first path block")
    return bad[:20]
