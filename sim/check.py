"""Orchestrator: `python -m sim.check <C12|C14|C18> --tier quick|thorough` (DESIGN §7).

Exit codes: 0 = held on everything explored (KNOWN-FINDING lines allowed); 1 = at least one
`VIOLATION property=<id> replay=<path>` line; 2 = harness error (never 0, never a VIOLATION).
"""

# pylint: disable=too-many-locals,too-many-branches,too-many-statements,too-many-instance-attributes

import argparse
import hashlib
import json
import os
import random
import sys
import time
from typing import Any, Dict, List, Optional, Tuple

from sim import compare, gen, refs
from sim.launch import VERIF, HarnessError, Runner, tealer_src

# overridable so that self-tests against scratch copies never touch the committed evidence
REPLAYS = os.environ.get("SIM_REPLAY_DIR") or os.path.join(VERIF, "replays")
EVIDENCE = os.environ.get("SIM_EVIDENCE_DIR") or os.path.join(VERIF, "evidence")
KNOWN = os.path.join(VERIF, "known_findings.json")

LEVEL = {"C12": "exploration", "C14": "exploration", "C18": "fault_enumeration"}


def log(*a: Any) -> None:
    print(*a, flush=True)


def load_known() -> List[Dict[str, Any]]:
    if not os.path.exists(KNOWN):
        return []
    return json.load(open(KNOWN, encoding="utf-8")).get("findings", [])


def known_match(prop: str, viol: Dict[str, Any]) -> Optional[Dict[str, Any]]:
    for k in load_known():
        if k.get("property") != prop or k.get("status") != "known":
            continue
        m = k.get("match", {})
        ok = True
        for field, want in sorted(m.items()):
            if viol.get("sig", {}).get(field) != want:
                ok = False
                break
        if ok:
            return k
    return None


class Check:
    def __init__(self, prop: str, tier: str, seed: int, workers: int = 8) -> None:
        self.prop = prop
        self.tier = tier
        self.seed = seed
        self.runner = Runner(workers=workers)
        self.refs: Optional[refs.RefStore] = None
        self.ctx = gen.GenCtx()
        self.t0 = time.time()
        self.stats: Dict[str, Any] = {
            "sessions": 0,
            "ops": 0,
            "compared_ops": 0,
            "faults_configured": {},
            "faults_fired": {},
            "fault_sites_fired": set(),
            "s1_nonid": 0,
            "s1_multi": 0,
            "s1_perms": set(),
            "hashseeds": set(),
            "pairs": set(),
            "probe_cache_nonempty_at_start": 0,
            "probe_op_after_aborted_build_same_teal": 0,
            "probe_sub_block_in_2_functions": 0,
            "probe_recursion_in_search_paths": 0,
            "probe_rerun_after_other_work": 0,
            "traced_call_events": 0,
            "skipped_ops": 0,
            "nontrivial_sessions": set(),
            "op_kinds": {},
            "post_fault_compared": 0,
        }
        self.violations: List[Dict[str, Any]] = []
        self.known_hits: List[str] = []
        self.harness_problems: List[str] = []
        self.samples: List[Any] = []
        self._alt_checked: set = set()
        self._seen_presigs: Dict[str, int] = {}
        self.replaying = False

    # ------------------------------------------------------------------ reference phase
    def reference_phase(self, need_sites: bool = True) -> None:
        r = self.runner
        r.prepare()
        info = r.run({"ops": [{"op": "info"}]}, 0)
        if not info.get("events"):
            raise HarnessError("info session failed: " + json.dumps(info)[:2000])
        self.ctx.detectors = info["events"][0]["detectors"]
        self.ctx.printers = info["events"][0]["printers"]
        # interpreter hash seeds of this run: one zygote each (drawn from VERIF_SEED)
        hrng = random.Random("hashseeds:%d" % self.seed)
        nh = int(os.environ.get("SIM_HASHSEEDS", 12 if self.tier == "quick" else 96))
        self.ctx.hashseeds = [hrng.randrange(1, 2**32) for _ in range(nh)]
        self.refs = refs.RefStore(r, self.ctx.detectors)
        index = json.load(open(os.path.join(VERIF, "corpus", "index.json"), encoding="utf-8"))
        self.index = {e["id"]: e for e in index}
        ids = [e["id"] for e in index]
        if os.environ.get("SIM_CORPUS_LIMIT"):
            ids = ids[:: max(1, len(ids) // int(os.environ["SIM_CORPUS_LIMIT"]))]
        for cid in ids:
            self.refs.need(("parse", cid))
        problems = self.refs.compute(timeout=900)
        for k, why in problems:
            self.harness_problems.append(f"reference {k}: {why}")
        line_limit = 450 if self.tier == "quick" else 100000
        for cid in ids:
            p = self.refs.get(("parse", cid))
            inf = {
                "parse": p.get("outcome"),
                "outside": bool(p.get("obs", {}).get("outside")),
                "nsubs": p.get("nsubs", 0),
                "lines": self.index[cid]["lines"],
                "entry": p.get("entry", 0),
            }
            self.ctx.info[cid] = inf
            self.ctx.all_contracts.append(cid)
            if p.get("outcome") == "ok":
                max_len, cap = (8, 40) if self.tier == "quick" else (12, 400)
                self.ctx.paths[cid] = gen.enumerate_paths(p.get("adj", {}), p.get("entry", 0), max_len, cap)
            if "deep chain" in self.index[cid].get("origin", ""):
                self.ctx.deep.append(cid)
                continue
            if p.get("outcome") != "ok" or inf["outside"]:
                # consistently failing inputs (DESIGN §2.4): parse error exits, or a block shared by
                # two CFGs which makes the analysis raise
                self.ctx.bad_inputs.append(cid)
                continue
            if inf["lines"] > line_limit:
                continue
            self.ctx.contracts.append(cid)
            if inf["lines"] <= 120:
                self.ctx.small.append(cid)
            if inf["nsubs"] >= 2:
                self.ctx.with_subs.append(cid)
        for cid in ids:
            t = self.index[cid].get("twin_of")
            if t and t in self.ctx.contracts and cid in self.ctx.contracts:
                self.ctx.twins.setdefault(t, []).append(cid)
                self.ctx.twins.setdefault(cid, []).append(t)
        if need_sites:
            self.site_tables()
            self.calibrate_depth()
        self.group_configs()
        log(
            f"[ref] contracts={len(ids)} usable={len(self.ctx.contracts)} small={len(self.ctx.small)} "
            f"bad_inputs={len(self.ctx.bad_inputs)} with_subs={len(self.ctx.with_subs)} "
            f"ref_sessions={self.refs.sessions} t={time.time()-self.t0:.1f}s"
        )

    def calibrate_depth(self) -> None:
        """Depth probes (sim/synth.py): the smallest D for which `deep<D>` runs out of stack in a
        pristine interpreter; `deep<D+5>` (fails alone) and `deep<D-6>` (completes alone) join
        ctx.deep, the contracts generators analyse after faults and rejected builds."""
        assert self.refs is not None

        def cid(d: int) -> str:
            return "deep%04d" % d

        def fails(d: int) -> Optional[bool]:
            r = self.refs.refs.get(("single", cid(d)))
            if r is None or r.get("outcome") == "unavailable":
                return None
            if r.get("outcome") != "ok":
                return "RecursionError" in str(r.get("exc"))
            return any(len(x) > 2 and "RecursionError" in str(x[2]) for x in r.get("obs", {}).get("dets", []))

        def first_failing(cands: List[int]) -> Optional[int]:
            for d in cands:
                self.refs.need(("single", cid(d)))
            self.refs.compute(timeout=600, alt_pct=0)
            return next((d for d in cands if fails(d)), None)

        coarse = list(range(600, 1800, 48))
        hi = first_failing(coarse)
        if hi is None or hi == coarse[0]:
            log("[ref] depth probes not calibrated (no D in range runs out of stack)")
            return
        hi = first_failing(list(range(hi - 42, hi + 1, 6))) or hi
        mstar = first_failing(list(range(hi - 5, hi + 1))) or hi
        probes = [cid(mstar + 5), cid(mstar - 6)]
        first_failing([mstar + 5, mstar - 6])
        if fails(mstar + 5) is not True or fails(mstar - 6) is not False:
            log("[ref] depth probes not calibrated (not monotone around D*)")
            return
        self.ctx.deep.extend(probes)
        self.ctx.depth_probes = probes
        self.stats["depth_probes"] = {"D_star": mstar, "fails_alone": probes[0], "completes_alone": probes[1]}

    def site_tables(self) -> None:
        """Fault-free tracing pass: which tealer functions does an operation enter, how often."""
        rng_ids = sorted(self.ctx.small, key=lambda c: hashlib.sha256(f"{self.seed}:{c}".encode()).hexdigest())
        n = 10 if self.tier == "quick" else 40
        jobs = []
        for cid in rng_ids[:n]:
            spec = {
                "ops": [
                    {
                        "op": "single",
                        "c": cid,
                        "dets": list(self.ctx.detectors),
                        "runs": list(self.ctx.detectors),
                        "trace": "enumerate",
                    }
                ],
                "immut": False,
            }
            jobs.append((cid, spec, 0))
        for cid, res in self.runner.run_many(jobs, timeout=300):
            evs = res.get("events", [])
            if evs and evs[0].get("sites"):
                self.ctx.sites[cid] = evs[0]["sites"]
                self.stats["traced_call_events"] += evs[0].get("events", 0)
        # faulted operations draw their contracts from the slice with a site table
        if self.ctx.sites:
            self.ctx.small = sorted(self.ctx.sites) + [c for c in self.ctx.small if c not in self.ctx.sites][:10]

    def group_configs(self) -> None:
        """Candidate contracts for group configs (DESIGN §2.4): a `group` operation draws one to
        three of them, with a contract type each, so that configs with several different contracts
        (an application next to a logic-sig) occur."""
        cands = [
            c
            for c in self.ctx.small
            if not self.ctx.info[c]["outside"] and self.ctx.info[c]["parse"] == "ok"
        ]
        more = [
            c
            for c in self.ctx.contracts
            if c not in cands and self.ctx.info[c]["lines"] <= 120 and len(self.ctx.paths.get(c, [])) > 1
        ]
        key = lambda c: hashlib.sha256(f"group:{self.seed}:{c}".encode()).hexdigest()  # noqa: E731
        cands = sorted(cands, key=key)[:14] + sorted(more, key=key)[: (26 if self.tier == "quick" else 120)]
        out = []
        for cid in cands:
            src = open(os.path.join(VERIF, "corpus", "teal", cid + ".teal"), encoding="utf-8").read()
            version = 1
            for line in src.splitlines():
                if line.startswith("#pragma version"):
                    version = int(line.split()[2])
                    break
            out.append({"cid": cid, "version": version})
        self.ctx.group_cfgs = out

    # ------------------------------------------------------------------ running sessions
    def ensure_refs(self, specs: List[Dict[str, Any]]) -> None:
        assert self.refs is not None
        for spec in specs:
            self.refs.need_ops(spec["ops"])
            hm_ = refs.handle_map(spec["ops"])
            for op in spec["ops"]:
                if op["op"] == "build" and hm_.get(op["h"]) in self.ctx.info:
                    c_ = hm_[op["h"]]
                    self.refs.need(("build", c_, ("B%d" % self.ctx.info[c_].get("entry", 0),)))
                if op["op"] == "group":
                    for key, path in sorted(op["paths"].items()):
                        self.refs.need(("build", op["cmap"][key.split("/")[0]], tuple(path)))
        if self.refs.pending:
            alt_pct = 0 if self.replaying else (25 if self.tier == "quick" else 100)
            problems = self.refs.compute(timeout=900, alt_pct=alt_pct)
            for k, why in problems:
                self.harness_problems.append(f"reference {k}: {why}")
            # every reference computed a second time (another hash seed, S1 reversed) must agree
            for k in sorted(self.refs.alt, key=repr):
                if k in self._alt_checked:
                    continue
                self._alt_checked.add(k)
                for m in compare.ref_self_check(k, self.refs.refs[k], self.refs.alt.get(k)):
                    if k[0] == "build":
                        ops = [
                            {"op": "parse", "c": k[1], "h": "T", "uid": 0},
                            {"op": "build", "h": "T", "path": list(k[2]), "uid": 1},
                        ]
                    else:
                        ops = [dict(self.refs.spec_for(k)["ops"][0], uid=0)]
                    self.report(
                        {"ops": ops, "hashseed": refs.ALT_HASHSEED, "index": -1, "s1": "rev"},
                        len(ops) - 1,
                        [m],
                        note="reference disagrees with itself under another hash seed / reversed S1",
                    )

    def judge(self, spec: Dict[str, Any], res: Dict[str, Any]) -> Optional[Tuple[int, List[Dict[str, Any]]]]:
        """First violating operation of a session: (position, mismatches)."""
        assert self.refs is not None
        ops = spec["ops"]
        hm = refs.handle_map(ops)
        evs = res.get("events", [])
        if "harness_error" in res:
            raise HarnessError("session harness error: " + res["harness_error"] + "\n" + res.get("trace", ""))
        for j, op in enumerate(ops):
            if j >= len(evs):
                kind = "hang" if res.get("timed_out") else "died"
                return j, [compare.mm(kind, "operation completes", res.get("died", "watchdog"))]
            ev = evs[j]
            key = refs.ref_key(op, hm)
            ref = self.refs.refs.get(key) if key is not None else None
            mms = compare.compare_op(op, ev, ref, self.prop)
            if op.get("trace") == "count" and op["op"] == "single" and ev.get("outcome") == "ok" and "events" in ev:
                cref = self.refs.refs.get(("count", op["c"]))
                if cref is not None and cref.get("outcome") == "ok" and cref.get("events"):
                    self.stats["step_budget_checked"] = self.stats.get("step_budget_checked", 0) + 1
                    ratio = ev["events"] / float(cref["events"])
                    self.stats["step_budget_max_ratio"] = max(self.stats.get("step_budget_max_ratio", 0.0), round(ratio, 3))
                    if ev["events"] > 10 * cref["events"] + 1000:
                        mms.append(compare.mm("slow_after_fault", f"<= 10 x {cref['events']} call events", ev["events"]))
            if op["op"] == "group" and ev.get("outcome") == "ok" and not compare.own_outcome_exempt(op, ev):
                for dname, ddig in ev.get("obs", {}).get("dets", []):
                    dref = self.refs.refs.get(("group", op["canon"], dname))
                    if dref is None or dref.get("outcome") != "ok":
                        continue
                    want_d = [d for n, d in dref.get("obs", {}).get("dets", []) if n == dname]
                    if want_d and want_d[0] != ddig:
                        mms.append(compare.mm("gdet:" + dname, want_d[0], ddig))
                for dname, ddig in ev.get("obs", {}).get("dets_ord", []):
                    dref = self.refs.refs.get(("groupx", refs.groupx_id(op), dname))
                    if dref is None or dref.get("outcome") != "ok":
                        continue
                    want_d = [d for n, d in dref.get("obs", {}).get("dets_ord", []) if n == dname]
                    if want_d and want_d[0] != ddig:
                        mms.append(compare.mm("gdetord:" + dname, want_d[0], ddig))
                for fkey, path in sorted(op["paths"].items()):
                    bref = self.refs.refs.get(("build", op["cmap"][fkey.split("/")[0]], tuple(path)))
                    got = ev.get("obs", {}).get("functions", {}).get(fkey)
                    if bref is None or bref.get("outcome") != "ok" or got is None:
                        continue
                    want = [bref["obs"]["graph"], bref["obs"]["ctx"]]
                    if want != got:
                        mms.append(compare.mm("gfunc_vs_build:" + fkey, want, got))
            if self.prop == "C12" and op["op"] == "build" and not op.get("invalid"):
                cid = hm.get(op["h"])
                inside = cid in self.ctx.info and not self.ctx.info[cid]["outside"] and self.ctx.info[cid]["parse"] == "ok"
                # the clause is about dispatch paths: it is asserted for contracts whose whole-contract
                # function ([entry block]) can be built at all; a contract the analysis cannot handle
                # whatever the path is a consistently failing input (C17's business)
                whole = self.refs.refs.get(("build", cid, ("B%d" % self.ctx.info.get(cid, {}).get("entry", 0),)))
                inside = inside and whole is not None and whole.get("outcome") == "ok"
                if (
                    inside
                    and ev.get("outcome") in ("internal_error", "declared_error")
                    and not compare.own_outcome_exempt(op, ev)
                ):
                    mms.append(
                        compare.mm(
                            "totality",
                            "function is built for a valid dispatch path",
                            [ev.get("outcome"), ev.get("exc"), ev.get("raised_in")],
                        )
                    )
            if mms:
                return j, mms
        return None

    @staticmethod
    def _spec_digest(spec: Dict[str, Any]) -> str:
        if "_digest" not in spec:
            spec["_digest"] = hashlib.sha256(
                json.dumps([spec["ops"], spec.get("hashseed", 0)], sort_keys=True).encode()
            ).hexdigest()[:16]
        return spec["_digest"]

    def account(self, spec: Dict[str, Any], res: Dict[str, Any]) -> None:
        st = self.stats
        st["sessions"] += 1
        st["hashseeds"].add(spec.get("hashseed", 0))
        ops = spec["ops"]
        evs = res.get("events", [])
        hm = refs.handle_map(ops)
        prev_c = None
        touched = 0
        aborted_teals = set()
        last_fault_pos = -1
        built_on: Dict[str, int] = {}
        for j, (op, ev) in enumerate(zip(ops, evs)):
            st["ops"] += 1
            st["op_kinds"][op["op"]] = st["op_kinds"].get(op["op"], 0) + 1
            if ev.get("outcome") == "skipped":
                st["skipped_ops"] += 1
                continue
            f = op.get("fault")
            if f is not None:
                k = f["kind"]
                if k == "io" and f.get("exc") == "TORN":
                    k = "io_torn_write"
                st["faults_configured"][k] = st["faults_configured"].get(k, 0) + 1
                if ev.get("fault_fired"):
                    st["faults_fired"][k] = st["faults_fired"].get(k, 0) + 1
                    last_fault_pos = j
                    if ev.get("fault_at"):
                        st["fault_sites_fired"].add(str(ev["fault_at"]).split("@line")[0])
                    if k == "recursion" and "search_paths" in str(ev.get("fault_at")):
                        st["probe_recursion_in_search_paths"] += 1
                    if op["op"] == "build":
                        aborted_teals.add(op["h"])
            s1 = ev.get("s1", {})
            if "free" in s1:
                st["s1_order_free"] = bool(s1["free"])
            st["s1_nonid"] += s1.get("nonid", 0)
            st["s1_multi"] += s1.get("multi", 0)
            for p in s1.get("perms", []):
                st["s1_perms"].add(p)
            st["traced_call_events"] += ev.get("events", 0)
            key = refs.ref_key(op, hm)
            compared = key is not None and not compare.own_outcome_exempt(op, ev)
            if compared:
                st["compared_ops"] += 1
                if touched > 0:
                    # distinct by content: the digest of the operation list and hash seed
                    st["nontrivial_sessions"].add(self._spec_digest(spec))
                if last_fault_pos >= 0 and j > last_fault_pos:
                    st["post_fault_compared"] += 1
                if ev.get("cache0") and max(ev["cache0"]) > 0:
                    st["probe_cache_nonempty_at_start"] += 1
                if op["op"] == "build" and op["h"] in aborted_teals and not (f and ev.get("fault_fired")):
                    st["probe_op_after_aborted_build_same_teal"] += 1
                if op["op"] == "build" and ev.get("outcome") == "ok" and ev.get("nsubs", 0) > 0:
                    built_on[op["h"]] = built_on.get(op["h"], 0) + 1
                    if built_on[op["h"]] == 2:
                        st["probe_sub_block_in_2_functions"] += 1
                if op["op"] == "rerun" and touched > 0:
                    st["probe_rerun_after_other_work"] += 1
                c = op.get("c") or hm.get(op.get("h", ""))
                if prev_c is not None and c is not None:
                    st["pairs"].add((prev_c, c))
                if c is not None:
                    prev_c = c
            if op["op"] not in ("noise", "gc", "drop"):
                touched += 1

    def run_batch(self, specs: List[Dict[str, Any]], timeout: float) -> None:
        self.ensure_refs(specs)
        jobs = [(i, {"ops": s["ops"], "s1": s.get("s1", "id")}, s.get("hashseed", 0)) for i, s in enumerate(specs)]
        for i, res in self.runner.run_many(jobs, timeout=timeout):
            spec = specs[i]
            self.account(spec, res)
            v = self.judge(spec, res)
            if v is not None:
                self.report(spec, v[0], v[1])
            if len(self.samples) < 3 and len(spec["ops"]) <= 14 and v is None:
                self.samples.append(
                    {
                        "session_index": spec.get("index"),
                        "hashseed": spec.get("hashseed"),
                        "ops": [self.brief(o) for o in spec["ops"]],
                        "outcomes": [e.get("outcome") for e in res.get("events", [])],
                    }
                )
            if len(self.violations) >= 5:
                break

    @staticmethod
    def brief(op: Dict[str, Any]) -> Dict[str, Any]:
        out = {k: v for k, v in op.items() if k in ("op", "c", "h", "f", "path", "runs", "dets", "s1", "fault", "argv", "name", "n")}
        if op["op"] == "group":
            out["functions"] = op.get("paths")
        return out

    # ------------------------------------------------------------------ violations
    def signature(self, spec: Dict[str, Any], pos: int, mms: List[Dict[str, Any]], ev: Optional[Dict[str, Any]]) -> Dict[str, Any]:
        op = spec["ops"][pos]
        m = mms[0]
        sig: Dict[str, Any] = {"op": op["op"], "kind": m["kind"].split(":")[0]}
        if ev is not None and ev.get("exc"):
            sig["exc_type"] = ev["exc"][0]
            sig["raised_in"] = ev.get("raised_in")
        if m["kind"] == "structure":
            sig["clause"] = str(m["observed"])[:60]
        return sig

    def run_spec(self, spec: Dict[str, Any], full: Optional[List[int]] = None, timeout: float = 300.0) -> Dict[str, Any]:
        s = {"ops": spec["ops"], "s1": spec.get("s1", "id")}
        if full:
            s["full"] = full
        return self.runner.run(s, spec.get("hashseed", 0), timeout=timeout)

    def still_fails(self, spec: Dict[str, Any], uid: int, kind: str, timeout: float) -> bool:
        res = self.run_spec(spec, timeout=timeout)
        try:
            v = self.judge(spec, res)
        except HarnessError:
            return False
        if v is None:
            return False
        pos, mms = v
        return spec["ops"][pos].get("uid") == uid and any(m["kind"] == kind for m in mms)

    def report(self, spec: Dict[str, Any], pos: int, mms: List[Dict[str, Any]], note: str = "") -> None:
        """Confirm by re-execution, minimise, write the replay file, re-execute it once more."""
        from sim import shrink  # pylint: disable=import-outside-toplevel

        uid = spec["ops"][pos].get("uid", pos)
        kind = mms[0]["kind"]
        timeout = 120.0 if self.tier == "quick" else 600.0
        presig = json.dumps([spec["ops"][pos]["op"], kind.split(":")[0], str(mms[0]["observed"])[:80] if kind in ("outcome", "totality", "structure") else ""])
        if presig in self._seen_presigs:
            self._seen_presigs[presig] += 1
            return
        self.ensure_refs([spec])
        confirmed = False
        for _ in range(3):
            if self.still_fails(spec, uid, kind, timeout):
                confirmed = True
                break
        if not confirmed:
            self.harness_problems.append(
                f"mismatch {kind} at op uid={uid} of session {spec.get('index')} did not reproduce in 3 re-executions"
            )
            return
        small = shrink.shrink(self, spec, uid, kind, timeout, budget=120 if self.tier == "quick" else 400)
        pos2 = [i for i, o in enumerate(small["ops"]) if o.get("uid") == uid][0]
        res = self.run_spec(small, full=[pos2], timeout=timeout)
        v = self.judge(small, res)
        ev = res["events"][pos2] if pos2 < len(res.get("events", [])) else None
        mms2 = v[1] if v is not None else mms
        sig = self.signature(small, pos2, mms2, ev)
        # expected side in full, from a pristine reference with full observations
        exp_full = None
        hm = refs.handle_map(small["ops"])
        key = refs.ref_key(small["ops"][pos2], hm)
        if key is not None and self.refs is not None:
            rs = self.refs.spec_for(key, full=True)
            tgt = rs.pop("_target")
            rr = self.runner.run(rs, 0, timeout=timeout)
            if len(rr.get("events", [])) > tgt:
                exp_full = rr["events"][tgt]
        viol = {
            "property": self.prop,
            "seed": self.seed,
            "tier": self.tier,
            "session_index": spec.get("index"),
            "hashseed": small.get("hashseed", 0),
            "spec": {"ops": small["ops"], "hashseed": small.get("hashseed", 0), "s1": small.get("s1", "id")},
            "target_uid": uid,
            "kind": kind,
            "sig": sig,
            "mismatches": [{k: (v if len(json.dumps(v, default=str)) < 4000 else str(v)[:4000]) for k, v in m.items()} for m in mms2[:8]],
            "observed_event": _trim(ev),
            "expected_event": _trim(exp_full),
            "original_ops": len(spec["ops"]),
            "minimised_ops": len(small["ops"]),
            "note": note,
            "tealer_src": tealer_src(),
            "replay": f"cd /verif && /venv/bin/python -m sim.check {self.prop} --replay <this file>",
        }
        k = known_match(self.prop, viol)
        if k is not None:
            line = f"KNOWN-FINDING: property={self.prop} {k.get('what', '')}"
            if line not in self.known_hits:
                self.known_hits.append(line)
                log(line)
            self._seen_presigs[presig] = 1
            return
        # one violation per signature is enough
        for old in self.violations:
            if old["sig"] == sig:
                old["also_seen_in_sessions"] = old.get("also_seen_in_sessions", 0) + 1
                return
        os.makedirs(REPLAYS, exist_ok=True)
        tag = hashlib.sha256(json.dumps(viol["spec"], sort_keys=True).encode()).hexdigest()[:8]
        path = os.path.join(REPLAYS, f"{self.prop}-{self.seed}-{tag}.json")
        with open(path, "w", encoding="utf-8") as f:
            json.dump(viol, f, indent=1, default=str)
        ok = replay(path, self.runner, quiet=True) == 1
        if not ok:
            self.harness_problems.append(f"replay file {path} did not reproduce the violation in a fresh execution")
            return
        viol["replay_path"] = path
        self._seen_presigs[presig] = 1
        self.violations.append(viol)
        log(f"VIOLATION property={self.prop} replay={path}")
        log(f"  kind={kind} sig={json.dumps(sig)} ops {len(spec['ops'])}->{len(small['ops'])}")
        for m in mms2[:3]:
            log("  expected:", str(m["expected"])[:300])
            log("  observed:", str(m["observed"])[:300])

    # ------------------------------------------------------------------ evidence
    def write_evidence(self, extra_cov: Optional[Dict[str, Any]] = None, rule: str = "") -> None:
        st = self.stats
        wall = time.time() - self.t0
        cov: Dict[str, Any] = {
            "evaluations": int(st["compared_ops"]),
            "distinct_nontrivial": len(st["nontrivial_sessions"]),
            "rule": rule,
            "samples": self.samples[:3] or [{"note": "no fault-free session short enough to print"}],
            "sessions": st["sessions"],
            "sessions_per_hour": round(st["sessions"] / wall * 3600) if wall > 0 else 0,
            "operations_executed": st["ops"],
            "operations_by_kind": dict(sorted(st["op_kinds"].items())),
            "operations_skipped_handle_lost_to_fault": st["skipped_ops"],
            "reference_sessions": self.refs.sessions if self.refs else 0,
            "interpreters_started": self.runner.sessions_run,
            "hash_seeds_used": len(st["hashseeds"]),
            "faults_configured": dict(sorted(st["faults_configured"].items())),
            "faults_fired": dict(sorted(st["faults_fired"].items())),
            "distinct_fault_sites_fired": len(st["fault_sites_fired"]),
            "compared_ops_after_a_fired_fault": st["post_fault_compared"],
            "s1_called_subroutines_order_taken_from_a_set_in_code_under_test": st.get("s1_order_free"),
            "s1_sets_with_2plus_elements": st["s1_multi"],
            "s1_non_identity_orders_applied": st["s1_nonid"],
            "s1_distinct_non_identity_orders": len(st["s1_perms"]),
            "distinct_prev_contract_to_contract_pairs": len(st["pairs"]),
            "probes": {
                "stack_ast_cache_non_empty_at_operation_start": st["probe_cache_nonempty_at_start"],
                "build_after_aborted_build_on_same_teal": st["probe_op_after_aborted_build_same_teal"],
                "second_function_with_subroutines_built_on_same_teal": st["probe_sub_block_in_2_functions"],
                "recursion_fault_fired_inside_search_paths": st["probe_recursion_in_search_paths"],
                "rerun_of_old_tealer_after_other_work": st["probe_rerun_after_other_work"],
            },
            "traced_call_events": st["traced_call_events"],
            "depth_probes": st.get("depth_probes", "not calibrated"),
            "bounded_progress": {
                "post_fault_operations_under_step_counter": st.get("step_budget_checked", 0),
                "max_ratio_to_reference_step_count": st.get("step_budget_max_ratio", 0.0),
                "budget": "10 x reference call events",
            },
            "simulated_time_note": "tealer has no clock; traced call events of faulted/enumeration operations are the simulator's step count",
            "components": {
                "real": "tealer parser, CFG builder, construct_function, four dataflow analyses, all detectors, printers, regex, __main__.main/handle_output",
                "stubbed": "sys.argv, stdout/stderr (captured), cwd + TEALER_ROOT_OUTPUT_DIR (per-session scratch), builtins.open/os.makedirs (pass-through shim, only under io faults), logging (disabled)",
                "never_run": "tealer/utils/algoexplorer.py (network)",
            },
            "corpus": {
                "contracts": len(self.ctx.all_contracts),
                "usable_in_sessions": len(self.ctx.contracts),
                "consistently_failing_inputs": len(self.ctx.bad_inputs),
            },
            "aslr_off": self.runner.aslr,
            "known_findings_hit": self.known_hits,
            "harness_problems": self.harness_problems[:10],
            "exhaustive": False,
        }
        for k in ("sweep_pairwise", "sweep_fault_sites", "sweep_all_paths", "sweep_detector_abort", "sweep_build_abort", "sweep_address_reuse", "sweep_hashseed", "sweep_cold_start"):
            if k in st:
                cov[k] = st[k]
        if extra_cov:
            cov.update(extra_cov)
        ev = {
            "property_id": self.prop,
            "tier": self.tier,
            "seed": self.seed,
            "level": LEVEL[self.prop],
            "coverage": cov,
            "assumptions": [
                "sampling, not enumeration: a clean batch is evidence, not proof",
                "the reference model is the same tealer code run alone in a pristine interpreter: the check decides independence from history/order/hash seed, not correctness of the isolated answer",
                "address-dependent orders other than Subroutine.called_subroutines are explored only through allocation noise with ASLR off",
            ],
            "wall_s": round(wall, 2),
            "violations": len(self.violations),
        }
        os.makedirs(EVIDENCE, exist_ok=True)
        with open(os.path.join(EVIDENCE, self.prop + ".json"), "w", encoding="utf-8") as f:
            json.dump(ev, f, indent=1, default=str)

    def finish(self) -> int:
        self.runner.close()
        for p in self.harness_problems:
            log("HARNESS-PROBLEM:", p)
        if self.violations:
            return 1
        if self.harness_problems:
            return 2
        return 0


def _trim(ev: Optional[Dict[str, Any]]) -> Any:
    if ev is None:
        return None
    s = json.dumps(ev, default=str)
    if len(s) < 200000:
        return ev
    out = dict(ev)
    out.pop("full", None)
    out["full_omitted"] = "too large"
    return out


# ------------------------------------------------------------------------------- replay


def replay(path: str, runner: Optional[Runner] = None, quiet: bool = False) -> int:
    """Re-executes a replay file in fresh interpreters (references included).  Returns 1 and
    prints the VIOLATION line when the recorded violation shows again, else 0."""
    viol = json.load(open(path, encoding="utf-8"))
    prop = viol["property"]
    own = runner is None
    if prop == "C18":
        from sim import c18  # pylint: disable=import-outside-toplevel

        return c18.replay(path, viol, runner, quiet)
    chk = Check(prop, viol.get("tier", "quick"), int(viol.get("seed", 0)))
    chk.replaying = True
    if runner is not None:
        chk.runner.close()
        chk.runner = runner
    try:
        chk.runner.prepare()
        info = chk.runner.run({"ops": [{"op": "info"}]}, 0)
        chk.ctx.detectors = info["events"][0]["detectors"]
        chk.refs = refs.RefStore(chk.runner, chk.ctx.detectors)
        spec = viol["spec"]
        # fragment membership for the totality clause
        hm = refs.handle_map(spec["ops"])
        for cid in sorted(set(hm.values())):
            chk.refs.need(("parse", cid))
        chk.refs.compute(timeout=900, alt_pct=0)
        for cid in sorted(set(hm.values())):
            p = chk.refs.refs.get(("parse", cid), {})
            chk.ctx.info[cid] = {"parse": p.get("outcome"), "outside": bool(p.get("obs", {}).get("outside")), "entry": p.get("entry", 0)}
        chk.ensure_refs([spec])
        hit = False
        for _ in range(2):
            if chk.still_fails(spec, viol["target_uid"], viol["kind"], 600.0):
                hit = True
                break
        if hit and not quiet:
            log(f"VIOLATION property={prop} replay={path}")
            log(f"  reproduced: kind={viol['kind']} at operation uid={viol['target_uid']}")
        elif not quiet:
            log(f"not reproduced: {path}")
        return 1 if hit else 0
    finally:
        if own:
            chk.runner.close()


# ------------------------------------------------------------------------------- property drivers

RULE_C14 = (
    "sessions are drawn from VERIF_SEED (contract pool, operation mix, detector orders/repeats, S1 policy, "
    "PYTHONHASHSEED, fault plan); every operation with a reference key is compared with the same operation run "
    "alone in a pristine interpreter; a session counts as distinct+non-trivial when its operation list is unique "
    "and at least one compared operation had an earlier operation touching tealer state in the same interpreter"
)


def run_c14(chk: Check) -> None:
    quick = chk.tier == "quick"
    n_free, n_fault, max_ops = (192, 128, 14) if quick else (1200, 800, 32)
    n_free = int(os.environ.get("SIM_N_FREE", n_free))
    n_fault = int(os.environ.get("SIM_N_FAULT", n_fault))
    chk.reference_phase()
    timeout = 180.0 if quick else 900.0
    batch = 64 if quick else 256
    for faulty, n in ((False, n_free), (True, n_fault)):
        i = 0
        while i < n and len(chk.violations) < 5:
            specs = [gen.gen_c14_session(chk.seed, i + j, chk.ctx, faulty, max_ops) for j in range(min(batch, n - i))]
            chk.run_batch(specs, timeout)
            i += len(specs)
            log(f"[c14] faulty={faulty} sessions={i}/{n} compared_ops={chk.stats['compared_ops']} t={time.time()-chk.t0:.0f}s")
    from sim import sweeps  # pylint: disable=import-outside-toplevel

    if len(chk.violations) < 5:
        sweeps.detector_abort_sweep(chk, 3 if quick else 12, 6 if quick else 24)
    if len(chk.violations) < 5:
        sweeps.address_reuse_sweep(chk, 44 if quick else 200)
    if len(chk.violations) < 5:
        sweeps.hashseed_sweep(chk, 1 if quick else 4, 2 if quick else 4)
    if len(chk.violations) < 5:
        sweeps.cold_start_sweep(chk)
    if not quick:
        sweeps.pairwise_history(chk)
        sweeps.fault_site_sweep(chk)
    chk.write_evidence(rule=RULE_C14)


RULE_C12 = (
    "sessions keep one or more parsed contracts alive and build functions for enumerated valid dispatch paths "
    "(every simple root-to-block prefix of the main graph, breadth-first, capped) in seeded orders with repetitions, "
    "interleaved with single/rerun/printer/cli/noise/group operations and faults; each build is compared with the "
    "pristine build of (contract, path), checked against the structural clauses, and after every operation the "
    "contract graph and every earlier function are re-snapshotted; distinct+non-trivial = unique sessions in which a "
    "compared operation followed other operations"
)


def run_c12(chk: Check) -> None:
    quick = chk.tier == "quick"
    n_free, n_fault, max_ops = (160, 96, 16) if quick else (1000, 600, 32)
    n_free = int(os.environ.get("SIM_N_FREE", n_free))
    n_fault = int(os.environ.get("SIM_N_FAULT", n_fault))
    chk.reference_phase()
    timeout = 180.0 if quick else 900.0
    batch = 64 if quick else 256
    for faulty, n in ((False, n_free), (True, n_fault)):
        i = 0
        while i < n and len(chk.violations) < 5:
            specs = [gen.gen_c12_session(chk.seed, i + j, chk.ctx, faulty, max_ops) for j in range(min(batch, n - i))]
            chk.run_batch(specs, timeout)
            i += len(specs)
            log(f"[c12] faulty={faulty} sessions={i}/{n} compared_ops={chk.stats['compared_ops']} t={time.time()-chk.t0:.0f}s")
    from sim import sweeps  # pylint: disable=import-outside-toplevel

    if len(chk.violations) < 5:
        sweeps.build_abort_sweep(chk, 4 if quick else 16, 16 if quick else 60)
    if quick and len(chk.violations) < 5:
        shared = [c for c in chk.ctx.with_subs if c in chk.ctx.contracts and chk.ctx.info[c]["lines"] <= 200 and len(chk.ctx.paths.get(c, [])) > 1]
        key = lambda c: hashlib.sha256(f"shared:{chk.seed}:{c}".encode()).hexdigest()  # noqa: E731
        sweeps.all_paths_sweep(chk, only=set(sorted(shared, key=key)[:12]), max_paths=14)
    if not quick:
        sweeps.all_paths_sweep(chk)
    paths_total = sum(len(v) for v in chk.ctx.paths.values())
    chk.write_evidence(
        extra_cov={"valid_dispatch_paths_enumerated": paths_total, "build_references": sum(1 for k in chk.refs.refs if k[0] == "build")},
        rule=RULE_C12,
    )


def main() -> int:
    ap = argparse.ArgumentParser()
    ap.add_argument("prop", choices=["C12", "C14", "C18"])
    ap.add_argument("--tier", default=os.environ.get("VERIF_TIER", "quick"), choices=["quick", "thorough"])
    ap.add_argument("--seed", type=int, default=int(os.environ.get("VERIF_SEED", "1")))
    ap.add_argument("--replay")
    ap.add_argument("--workers", type=int, default=int(os.environ.get("SIM_WORKERS", "8")))
    args = ap.parse_args()
    if args.replay:
        try:
            return replay(args.replay)
        except HarnessError as e:
            log("HARNESS-ERROR:", e)
            return 2
    log(f"[{args.prop}] tier={args.tier} VERIF_SEED={args.seed} tealer_src={tealer_src()}")
    if args.prop == "C18":
        from sim import c18  # pylint: disable=import-outside-toplevel

        return c18.run(args.tier, args.seed, args.workers)
    chk = Check(args.prop, args.tier, args.seed, args.workers)
    try:
        if args.prop == "C14":
            run_c14(chk)
        else:
            run_c12(chk)
    except HarnessError as e:
        log("HARNESS-ERROR:", e)
        chk.runner.close()
        return 2
    except BaseException:
        chk.runner.close()
        raise
    return chk.finish()


if __name__ == "__main__":
    # run the canonical module object (`python -m` would otherwise load this file twice)
    from sim import check as _check

    sys.exit(_check.main())
