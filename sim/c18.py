"""C18, the JSON-envelope sentence only (DESIGN §5): enumeration of the fault space of
`tealer --json ... detect` runs.

For a slice of the corpus x detector selections x {--json -, --json <file>} x {no filter, a
seeded --filter-paths pattern}: no fault; the two CLI misuses that reach the error envelope; and a
TealerException raised at the k-th call event inside tealer.detectors.* before handle_output is
entered.  Every run is a one-operation session in an interpreter of its own.
"""

# pylint: disable=too-many-locals,too-many-branches,too-many-statements

import json
import os
import random
import time
from typing import Any, Dict, List, Optional, Tuple

from sim import compare, refs
from sim.check import Check, log, replay as _generic_replay  # noqa: F401
from sim.launch import HarnessError, Runner


def cfg_sig(op: Dict[str, Any]) -> str:
    argv = list(op["argv"])
    if "--json" in argv:
        argv[argv.index("--json") + 1] = "<J>"
    return json.dumps([op["c"], argv, op.get("fault")], sort_keys=True)


class C18Check(Check):
    def __init__(self, tier: str, seed: int, workers: int = 8) -> None:
        super().__init__("C18", tier, seed, workers)
        self.api: Dict[str, Dict[str, Any]] = {}
        self.twins: Dict[str, Dict[str, Any]] = {}
        self.c18 = {
            "runs": 0,
            "envelopes": 0,
            "error_envelopes": set(),
            "fault_in_window_reached_main": 0,
            "fault_swallowed_before_main": 0,
            "fault_escaped_no_envelope": 0,
            "fault_not_fired": 0,
            "misuse_runs": 0,
            "file_mode_runs": 0,
            "filtered_runs": 0,
            "k_enumerated": {},
            "complete": True,
        }

    def ensure_refs(self, specs: List[Dict[str, Any]]) -> None:  # C18 judges each run on its own
        return

    def api_ref(self, cid: str) -> Dict[str, Any]:
        if cid not in self.api:
            assert self.refs is not None
            spec = self.refs.spec_for(("single", cid), full=True)
            tgt = spec.pop("_target")
            res = self.runner.run(spec, 0, timeout=600)
            evs = res.get("events", [])
            self.api[cid] = evs[tgt] if len(evs) > tgt else {"outcome": "unavailable"}
        return self.api[cid]

    def twin_of(self, op: Dict[str, Any]) -> Optional[Dict[str, Any]]:
        argv = list(op["argv"])
        if "--json" not in argv or argv[argv.index("--json") + 1] == "-":
            return None
        sig = cfg_sig(op)
        if sig not in self.twins:
            t = {k: v for k, v in op.items() if k != "uid"}
            targv = list(argv)
            targv[targv.index("--json") + 1] = "-"
            t["argv"] = targv
            t["envelope"] = True
            res = self.runner.run({"ops": [t]}, 0, timeout=600)
            evs = res.get("events", [])
            self.twins[sig] = {"op": t, "ev": evs[0] if evs else {}}
        return self.twins[sig]

    def baseline_of(self, op: Dict[str, Any]) -> Optional[Dict[str, Any]]:
        """The same run without the fault, alone in a pristine interpreter."""
        if not op.get("fault"):
            return None
        t = {k: v for k, v in op.items() if k not in ("uid", "fault")}
        sig = "B|" + cfg_sig(t) + "|" + str(t["argv"])
        if sig not in self.twins:
            t["envelope"] = True
            res = self.runner.run({"ops": [t]}, 0, timeout=600)
            evs = res.get("events", [])
            self.twins[sig] = {"op": t, "ev": evs[0] if evs else {}}
        return self.twins[sig]

    def judge(self, spec: Dict[str, Any], res: Dict[str, Any]) -> Optional[Tuple[int, List[Dict[str, Any]]]]:
        if "harness_error" in res:
            raise HarnessError("session harness error: " + res["harness_error"] + "\n" + res.get("trace", ""))
        evs = res.get("events", [])
        for j, op in enumerate(spec["ops"]):
            if op["op"] != "cli" or j >= len(evs):
                continue
            base = self.baseline_of(op) if evs[j].get("fault_fired") else None
            mms = compare.envelope_oracle(op, evs[j], self.api_ref(op["c"]), self.twin_of(op), base)
            if mms:
                return j, mms
        return None

    def account_c18(self, op: Dict[str, Any], ev: Dict[str, Any]) -> None:
        st = self.c18
        st["runs"] += 1
        env, _ = compare.envelope_of(op, ev)
        if env is not None:
            st["envelopes"] += 1
            if isinstance(env, dict) and env.get("error") is not None:
                st["error_envelopes"].add(cfg_sig(op) + "|" + str(op["argv"]))
        f = op.get("fault")
        if f is not None:
            if not ev.get("fault_fired"):
                st["fault_not_fired"] += 1
            elif str(ev.get("fault_caught_in", "")).endswith("__main__.py:main"):
                st["fault_in_window_reached_main"] += 1
            elif env is None:
                st["fault_escaped_no_envelope"] += 1
            else:
                st["fault_swallowed_before_main"] += 1
            k = "detector"
            self.stats["faults_configured"][k] = self.stats["faults_configured"].get(k, 0) + 1
            if ev.get("fault_fired"):
                self.stats["faults_fired"][k] = self.stats["faults_fired"].get(k, 0) + 1
                self.stats["fault_sites_fired"].add(str(ev.get("fault_at")))
        if op.get("misuse"):
            st["misuse_runs"] += 1
            self.stats["faults_configured"]["cli_misuse"] = self.stats["faults_configured"].get("cli_misuse", 0) + 1
            self.stats["faults_fired"]["cli_misuse"] = self.stats["faults_fired"].get("cli_misuse", 0) + 1
        if "--json" in op["argv"] and op["argv"][op["argv"].index("--json") + 1] != "-":
            st["file_mode_runs"] += 1
        if op.get("filtered"):
            st["filtered_runs"] += 1


def _argv(json_target: str, dets: Optional[List[str]], filt: Optional[str]) -> List[str]:
    argv = ["--json", json_target, "detect", "--contracts", "{C}"]
    if dets is not None:
        argv += ["--detectors", ",".join(dets)]
    if filt is not None:
        argv += ["--filter-paths", filt]
    return argv


def plan(chk: C18Check, rng: random.Random) -> List[Dict[str, Any]]:
    quick = chk.tier == "quick"
    ctx = chk.ctx
    pool = [c for c in ctx.small if c not in ctx.bad_inputs]
    subs = [c for c in ctx.with_subs if c in ctx.contracts and ctx.info[c]["lines"] <= 200]
    n_small, n_subs = (7, 3) if quick else (28, 12)
    slice_ = rng.sample(pool, min(n_small, len(pool))) + rng.sample(subs, min(n_subs, len(subs)))
    # every detector and every result type must have something to count: add, per detector, a
    # contract for which it reports the most entries (InstructionsOutput findings with several
    # instructions and ExecutionPaths with several paths included)
    cands = sorted(pool)[:: max(1, len(pool) // (40 if quick else 120))]
    cands = sorted(set(cands + [c for c in pool if c.startswith("h")]))
    best: Dict[str, Tuple[int, str]] = {}
    for cid in cands:
        api = chk.api_ref(cid)
        for name in sorted(api.get("full", {}).get("dets", {})):
            n_entries = 0
            for o in api["full"]["dets"][name]["outs"]:
                n_entries += sum(len(p) if isinstance(p, list) else 1 for p in (o.get("paths") or []))
            if n_entries > best.get(name, (0, ""))[0]:
                best[name] = (n_entries, cid)
    slice_ = sorted(set(slice_ + [cid for _n, cid in best.values()]))
    chk.c18["detectors_with_findings_in_slice"] = sorted(best)
    # enumeration pass: call events inside tealer.detectors.* before handle_output, per selection
    variants: List[Tuple[str, Optional[List[str]]]] = []
    for cid in slice_:
        variants.append((cid, None))
        variants.append((cid, sorted(rng.sample(ctx.detectors, rng.randrange(1, 4)))))
        if not quick:
            variants.append((cid, sorted(rng.sample(ctx.detectors, rng.randrange(2, 6)))))
    jobs = []
    for i, (cid, dets) in enumerate(variants):
        op = {"op": "cli", "c": cid, "argv": _argv("-", dets, None), "trace": "enumerate", "envelope": True}
        jobs.append((i, {"ops": [op], "immut": False}, 0))
    counts: Dict[int, int] = {}
    for i, res in chk.runner.run_many(jobs, timeout=600):
        evs = res.get("events", [])
        counts[i] = evs[0].get("detector_events", 0) if evs else 0
        chk.stats["traced_call_events"] += evs[0].get("events", 0) if evs else 0
    ops: List[Dict[str, Any]] = []

    def add(op: Dict[str, Any]) -> None:
        op["uid"] = len(ops)
        op["envelope"] = True
        ops.append(op)

    full_k_budget = 0 if quick else 6  # selections whose k-space is enumerated completely
    for i, (cid, dets) in enumerate(variants):
        api = chk.api_ref(cid)
        # a seeded --filter-paths pattern built from a real reported path, so that `count` is
        # computed on a list that really changed (the filter's own semantics are not judged)
        shorts = []
        for name in sorted(api.get("full", {}).get("dets", {})):
            for o in api["full"]["dets"][name]["outs"]:
                for p in json.loads(o["json"]).get("paths", []):
                    if isinstance(p, dict) and "short" in p:
                        shorts.append(p["short"])
        filt = None
        if shorts:
            s = rng.choice(sorted(set(shorts)))
            parts = s.split(" -> ")
            filt = " -> ".join(parts[-2:]) + "$" if len(parts) >= 2 else "^" + s + "$"
        for target in ("-", "out.json"):
            add({"op": "cli", "c": cid, "argv": _argv(target, dets, None), "expect_dets": dets})
            if filt is not None:
                add({"op": "cli", "c": cid, "argv": _argv(target, dets, filt), "expect_dets": dets, "filtered": True})
        # the hidden --debug flag (logger levels; debug-only code runs before main() filters)
        add({"op": "cli", "c": cid, "argv": ["--debug"] + _argv("-", dets, filt), "expect_dets": dets, "filtered": filt is not None})
        if dets is not None:
            for target in ("-", "out.json"):
                add({"op": "cli", "c": cid, "argv": _argv(target, dets + ["nope"], None), "misuse": "unknown_detector"})
                add({"op": "cli", "c": cid, "argv": _argv(target, dets + [dets[0]], None), "misuse": "duplicate_detector"})
        n = counts.get(i, 0)
        if n <= 0:
            continue
        if not quick and full_k_budget > 0 and n <= 1500:
            ks = list(range(1, n + 2))  # n+1: one past the window, must not fire
            full_k_budget -= 1
            chk.c18["k_enumerated"][f"{cid}:{','.join(dets) if dets else 'default'}"] = n
        else:
            ks = sorted(set([1, 2, max(1, n // 2), n] + [rng.randrange(1, n + 1) for _ in range(2 if quick else 8)]))
        core = {1, max(1, n // 2), n}
        for k in ks:
            # the accessors raise a bare TealerException(): both flavours at the core points,
            # alternating elsewhere
            flavours = [False, True] if (k in core and len(ks) < 100) else [k % 2 == 0]
            for bare in flavours:
                f = {"kind": "detector", "k": k}
                if bare:
                    f["bare"] = True
                add({"op": "cli", "c": cid, "argv": _argv("-", dets, None), "fault": f, "expect_dets": dets})
        for k in ks[:: max(1, len(ks) // 3)][:3]:
            add({"op": "cli", "c": cid, "argv": _argv("out.json", dets, None), "fault": {"kind": "detector", "k": k, "bare": k % 2 == 1}, "expect_dets": dets})
    return ops


RULE = (
    "runs = slice of corpus contracts x detector selections (default, seeded subsets) x {--json -, --json file} x "
    "{no filter, seeded --filter-paths} with: no fault; cli misuse (unknown / duplicated detector name); TealerException "
    "at the k-th call event inside tealer.detectors.* before handle_output (k in {1,2,N/2,N}+seeded sample in quick; in "
    "thorough all k=1..N+1 for six selections); every run judged by: success == (error is None) == (main() saw no error), "
    "error reaching main() is reported, an injected error caught earlier is either reported or the run delivers the complete "
    "fault-free result, count == len(paths), file payload == stdout payload, error-free result == API to_json; injected "
    "TealerExceptions come with a message and bare (as the context accessors raise them); additional sessions perform 2-5 "
    "CLI runs in one interpreter and judge each envelope the same way; "
    "distinct+non-trivial = distinct run configurations whose envelope carries an error"
)


def run(tier: str, seed: int, workers: int) -> int:
    chk = C18Check(tier, seed, workers)
    try:
        chk.reference_phase(need_sites=False)
        rng = random.Random("c18:%d" % seed)
        ops = plan(chk, rng)
        log(f"[c18] planned single runs={len(ops)} t={time.time()-chk.t0:.0f}s")
        hs = chk.ctx.hashseeds[:3] or [0]
        specs = []
        for i, op in enumerate(ops):
            specs.append({"ops": [op], "hashseed": hs[i % len(hs)], "index": i})
        # several CLI runs in one interpreter (a service, a notebook, a test runner calling main()):
        # the envelope of each must still satisfy the oracle
        plain = [o for o in ops if not o.get("fault")]
        n_multi = int(os.environ.get("SIM_C18_MULTI", 48 if tier == "quick" else 600))
        for m in range(n_multi if plain else 0):
            k = rng.randrange(2, 6)
            seq = []
            first = rng.choice(plain)
            seq.append(first)
            for _ in range(k - 1):
                r = rng.random()
                same_sel = [o for o in plain if o["argv"][5:] == first["argv"][5:] and o["c"] != first["c"]]
                same_c = [o for o in plain if o["c"] == first["c"]]
                if r < 0.4 and same_sel:
                    seq.append(rng.choice(same_sel))
                elif r < 0.7 and same_c:
                    seq.append(rng.choice(same_c))
                else:
                    seq.append(rng.choice(plain))
            mops = []
            keep = rng.random() < 0.6  # the export directory survives from one run to the next
            for u, o in enumerate(seq):
                o2 = dict(o)
                o2["uid"] = u
                if keep:
                    o2["keep_files"] = True
                mops.append(o2)
            specs.append({"ops": mops, "hashseed": rng.choice(hs), "index": len(specs), "multi": True})
        jobs = [(i, {"ops": s["ops"], "immut": False}, s["hashseed"]) for i, s in enumerate(specs)]
        done = 0
        for i, res in chk.runner.run_many(jobs, timeout=600):
            spec = specs[i]
            evs = res.get("events", [])
            chk.stats["sessions"] += 1
            chk.stats["ops"] += 1
            chk.stats["op_kinds"]["cli"] = chk.stats["op_kinds"].get("cli", 0) + 1
            chk.stats["hashseeds"].add(spec["hashseed"])
            if len(evs) < len(spec["ops"]):
                chk.harness_problems.append(f"run {i} produced {len(evs)} of {len(spec['ops'])} events: {res.get('died') or res.get('timed_out')}")
                continue
            for op_, ev_ in zip(spec["ops"], evs):
                chk.stats["traced_call_events"] += ev_.get("events", 0)
                chk.account_c18(op_, ev_)
                chk.stats["compared_ops"] += 1
            if spec.get("multi"):
                chk.c18["multi_run_sessions"] = chk.c18.get("multi_run_sessions", 0) + 1
                chk.stats["ops"] += len(evs) - 1
                chk.stats["op_kinds"]["cli"] += len(evs) - 1
            v = chk.judge(spec, res)
            if v is not None:
                chk.report(spec, v[0], v[1])
                if len(chk.violations) >= 5:
                    chk.c18["complete"] = False
                    break
            elif len(chk.samples) < 3 and spec["ops"][0].get("fault") and evs[0].get("fault_fired"):
                env, _ = compare.envelope_of(spec["ops"][0], evs[0])
                chk.samples.append({"run": chk.brief(spec["ops"][0]), "fault_at": evs[0].get("fault_at"), "caught_in": evs[0].get("fault_caught_in"), "envelope": {k: (v if k != "result" else f"<{len(v)} results>") for k, v in (env or {}).items()}})
            done += 1
            if done % 200 == 0:
                log(f"[c18] sessions={done}/{len(specs)} t={time.time()-chk.t0:.0f}s")
        st = chk.c18
        chk.stats["nontrivial_sessions"] = st["error_envelopes"]
        extra = {
            "runs": st["runs"],
            "envelopes_emitted": st["envelopes"],
            "distinct_error_envelope_configurations": len(st["error_envelopes"]),
            "fault_in_window_reached_main": st["fault_in_window_reached_main"],
            "fault_swallowed_before_main": st["fault_swallowed_before_main"],
            "fault_escaped_no_envelope": st["fault_escaped_no_envelope"],
            "fault_configured_not_fired": st["fault_not_fired"],
            "misuse_runs": st["misuse_runs"],
            "file_mode_runs": st["file_mode_runs"],
            "filtered_runs": st["filtered_runs"],
            "sessions_with_several_cli_runs_in_one_interpreter": st.get("multi_run_sessions", 0),
            "selections_with_complete_k_enumeration": st["k_enumerated"],
            "detectors_with_findings_in_slice": st.get("detectors_with_findings_in_slice", []),
            "exhaustive": bool(tier == "thorough" and st["complete"] and st["k_enumerated"]),
        }
        chk.write_evidence(extra_cov=extra, rule=RULE)
    except HarnessError as e:
        log("HARNESS-ERROR:", e)
        chk.runner.close()
        return 2
    except BaseException:
        chk.runner.close()
        raise
    return chk.finish()


def replay(path: str, viol: Dict[str, Any], runner: Optional[Runner], quiet: bool) -> int:
    chk = C18Check(viol.get("tier", "quick"), int(viol.get("seed", 0)))
    chk.replaying = True
    own = runner is None
    if runner is not None:
        chk.runner.close()
        chk.runner = runner
    try:
        chk.runner.prepare()
        info = chk.runner.run({"ops": [{"op": "info"}]}, 0)
        chk.ctx.detectors = info["events"][0]["detectors"]
        chk.refs = refs.RefStore(chk.runner, chk.ctx.detectors)
        spec = viol["spec"]
        hit = False
        for _ in range(2):
            if chk.still_fails(spec, viol["target_uid"], viol["kind"], 600.0):
                hit = True
                break
        if hit and not quiet:
            log(f"VIOLATION property=C18 replay={path}")
            log(f"  reproduced: kind={viol['kind']} at operation uid={viol['target_uid']}")
        elif not quiet:
            log(f"not reproduced: {path}")
        return 1 if hit else 0
    finally:
        if own:
            chk.runner.close()
