"""Minimisation of a failing session (DESIGN §2.8): delta debugging over the operation list, then
simplification of what is left (drop faults, canonical S1, fewer detectors, hash seed 0), each
candidate re-run in a fresh interpreter, while the same violation kind on the same operation
persists.  Candidates of one round run in parallel; the first success in candidate order wins, so
the result does not depend on completion order."""

import time
from concurrent.futures import ThreadPoolExecutor
from typing import Any, Callable, Dict, List, Optional


def _first_ok(cands: List[Dict[str, Any]], pred: Callable[[Dict[str, Any]], bool], workers: int) -> Optional[int]:
    if not cands:
        return None
    with ThreadPoolExecutor(max_workers=workers) as ex:
        results = list(ex.map(pred, cands))
    for i, ok in enumerate(results):
        if ok:
            return i
    return None


def shrink(chk: Any, spec: Dict[str, Any], uid: int, kind: str, timeout: float, budget: int = 120) -> Dict[str, Any]:
    used = [0]
    workers = min(8, chk.runner.workers)
    # wall-clock cap as well: when the violation makes an operation slow (an analysis that should
    # have failed fast runs for minutes) every candidate is slow, and a smaller replay file is not
    # worth an hour
    deadline = time.time() + (300.0 if chk.tier == "quick" else 1500.0)

    def pred(cand: Dict[str, Any]) -> bool:
        if used[0] >= budget or time.time() > deadline:
            return False
        used[0] += 1
        return chk.still_fails(cand, uid, kind, timeout)

    def with_ops(base: Dict[str, Any], ops: List[Dict[str, Any]]) -> Dict[str, Any]:
        d = dict(base)
        d["ops"] = ops
        return d

    cur = dict(spec)
    ops = list(cur["ops"])
    # everything after the target operation is irrelevant (operations are parsed one at a time, so
    # the cut changes nothing before it); verified all the same
    tpos = [i for i, o in enumerate(ops) if o.get("uid") == uid][0]
    cut = with_ops(cur, ops[: tpos + 1])
    if tpos + 1 < len(ops) and not pred(cut):
        return cur
    cur = cut

    # ddmin over the operations before the target
    n = 2
    while len(cur["ops"]) > 1 and used[0] < budget:
        ops = cur["ops"]
        head, target = ops[:-1], ops[-1]
        if not head:
            break
        n = min(n, len(head))
        size = (len(head) + n - 1) // n
        chunks = [head[i : i + size] for i in range(0, len(head), size)]
        cands = []
        # try removing each chunk (complements)
        for ci in range(len(chunks)):
            rest = [o for cj, ch in enumerate(chunks) if cj != ci for o in ch]
            cands.append(with_ops(cur, rest + [target]))
        hit = _first_ok(cands, pred, workers)
        if hit is not None:
            cur = cands[hit]
            n = max(n - 1, 2)
            continue
        if n >= len(head):
            break
        n = min(len(head), n * 2)

    # simplification passes on the remaining operations
    def try_edit(edit: Callable[[List[Dict[str, Any]]], Optional[List[Dict[str, Any]]]]) -> None:
        nonlocal cur
        new_ops = edit([dict(o) for o in cur["ops"]])
        if new_ops is None:
            return
        cand = with_ops(cur, new_ops)
        if pred(cand):
            cur = cand

    for i in range(len(cur["ops"])):
        if used[0] >= budget:
            break

        def drop_fault(ops_: List[Dict[str, Any]], i: int = i) -> Optional[List[Dict[str, Any]]]:
            if i >= len(ops_) or "fault" not in ops_[i]:
                return None
            ops_[i].pop("fault")
            return ops_

        def canon_s1(ops_: List[Dict[str, Any]], i: int = i) -> Optional[List[Dict[str, Any]]]:
            if i >= len(ops_) or ops_[i].get("s1", "id") == "id":
                return None
            ops_[i]["s1"] = "id"
            return ops_

        def fewer_dets(ops_: List[Dict[str, Any]], i: int = i) -> Optional[List[Dict[str, Any]]]:
            if i >= len(ops_) or ops_[i]["op"] not in ("single", "rerun"):
                return None
            o = ops_[i]
            wanted = kind.split(":", 1)[1] if kind.startswith(("det:", "ctx_after:")) else None
            if o.get("uid") == uid and wanted:
                new = [wanted]
            else:
                new = []
            if o.get("dets") == new and o.get("runs") in (new, None):
                return None
            o["dets"] = new
            o["runs"] = list(new)
            return ops_

        try_edit(drop_fault)
        try_edit(canon_s1)
        try_edit(fewer_dets)

    if cur.get("hashseed", 0) != 0 and used[0] < budget:
        cand = dict(cur)
        cand["hashseed"] = 0
        if pred(cand):
            cur = cand
    return cur
