"""Observation functions: what the properties name, read through tealer's public API and
canonicalised so that nothing stronger than the property is demanded (DESIGN §2.5).

Runs inside the session interpreter.  No hash-ordered iteration is used: every collection that
reaches a digest is sorted on value-based keys.
"""

import hashlib
import json
import re
from typing import Any, Dict, List, Tuple

MAX_GROUP_SIZE = 16
_ADDR_RE = re.compile(r"0x[0-9a-fA-F]{6,}")


def digest(obj: Any) -> str:
    data = json.dumps(obj, sort_keys=True, separators=(",", ":"), default=str)
    return hashlib.sha256(data.encode("utf-8")).hexdigest()[:24]


def norm_msg(msg: str, scratch: str = "") -> str:
    msg = _ADDR_RE.sub("0xADDR", msg)
    if msg.startswith("maximum recursion depth exceeded"):
        # "... in comparison" / "... while calling a Python object": which call met the limit is
        # not part of the outcome
        msg = "maximum recursion depth exceeded"
    if scratch:
        msg = msg.replace(scratch, "<SCRATCH>")
    return msg[:400]


# --------------------------------------------------------------------------- contexts


def _addr(v: Any) -> List[Any]:
    return [bool(v.any_addr), bool(v.no_addr), sorted(set(str(a) for a in v.possible_addr))]


def _one_ctx(c: Any) -> List[Any]:
    return [
        sorted(set(c.group_sizes)),
        sorted(set(c.group_indices)),
        sorted(set(str(t) for t in c.transaction_types)),
        _addr(c.rekeyto),
        _addr(c.closeto),
        _addr(c.assetcloseto),
        _addr(c.sender),
        c.max_fee,
        bool(c.max_fee_unknown),
    ]


def block_ctx(ctx: Any) -> List[Any]:
    out = [_one_ctx(ctx)]
    out.append([_one_ctx(ctx.gtxn_context(i)) for i in range(MAX_GROUP_SIZE)])
    out.append([_one_ctx(ctx.absolute_context(i)) for i in range(MAX_GROUP_SIZE)])
    out.append(
        [
            _one_ctx(ctx.relative_context(k))
            for k in range(-(MAX_GROUP_SIZE - 1), MAX_GROUP_SIZE)
            if k != 0
        ]
    )
    return out


def block_key(bb: Any) -> Tuple[int, int]:
    # error blocks made by construct_function can share an idx; their entry line differs
    line = bb.instructions[0].line if bb.instructions else -1
    return (bb.idx, line)


def sorted_blocks(blocks: List[Any]) -> List[Any]:
    return sorted(blocks, key=block_key)


def function_contexts(function: Any) -> List[Any]:
    """[(block key, context observation)] for every block of the function, sorted by block key."""
    out = []
    for bb in sorted_blocks(function.blocks):
        out.append([list(block_key(bb)), block_ctx(function.transaction_context(bb))])
    return out


def contexts_compact(function: Any) -> Dict[str, Any]:
    """A human-readable, much smaller view (own context only) used in replay files."""
    out = {}
    for bb in sorted_blocks(function.blocks):
        out[f"B{bb.idx}@{block_key(bb)[1]}"] = _one_ctx(function.transaction_context(bb))
    return out


# --------------------------------------------------------------------------- graphs


def _safe(f: Any) -> Any:
    try:
        return f()
    except Exception as e:  # pylint: disable=broad-except
        return f"<{type(e).__name__}>"


def _ins_list(bb: Any) -> List[Any]:
    return [[ins.line, str(ins)] for ins in bb.instructions]


def _ids(blocks: List[Any]) -> List[Any]:
    return [list(block_key(b)) for b in blocks]


def _sub_name(bb: Any, main_name: str = "") -> str:
    try:
        name = bb.subroutine.name
    except Exception as e:  # pylint: disable=broad-except
        return f"<{type(e).__name__}>"
    if main_name and name == main_name:
        return "__main__"
    return name


def function_graph(function: Any) -> Dict[str, Any]:
    """Graph part of the snapshot of a Function (DESIGN §3.1(1)); block order is not observed."""
    main_name = function.main.name
    blocks = []
    for bb in sorted_blocks(function.blocks):
        blocks.append(
            {
                "k": list(block_key(bb)),
                "ins": _ins_list(bb),
                "next": _ids(bb.next),  # ordered: position means default / jump branch
                "prev": sorted(_ids(bb.prev)),
                "sub": _sub_name(bb, main_name),
            }
        )
    subs = {}
    for name in sorted(function.subroutines):
        sub = function.subroutines[name]
        subs[name] = {
            "entry": list(block_key(sub.entry)),
            "blocks": sorted(_ids(sub.blocks)),
            "exit": sorted(_ids(sub.exit_blocks)),
            "retsub": sorted(_ids(sub.retsub_blocks)),
            "callers": sorted(_ids(function.caller_blocks(sub))),
            "return_points": sorted(_ids(function.return_point_blocks(sub))),
        }
    return {
        "entry": list(block_key(function.entry)),
        "main_blocks": sorted(_ids(function.main.blocks)),
        "main_exit": sorted(_ids(function.main.exit_blocks)),
        "blocks": blocks,
        "subs": subs,
    }


def function_snapshot(function: Any) -> Dict[str, Any]:
    return {"graph": function_graph(function), "ctx": function_contexts(function)}


def teal_graph(teal: Any) -> Dict[str, Any]:
    """Snapshot of the contract's own graph (DESIGN §3.1(2))."""
    bbs = []
    for bb in teal.bbs:  # the order of teal.bbs is part of the contract's own graph
        bbs.append(
            {
                "k": list(block_key(bb)),
                "ins": _ins_list(bb),
                "next": _ids(bb.next),
                "prev": sorted(_ids(bb.prev)),
                "sub": _sub_name(bb),
                "teal_is_self": bb.teal is teal,
            }
        )
    subs = {}
    for name, sub in [("__main__", teal.main)] + sorted(teal.subroutines.items()):
        subs[name] = {
            "name": sub.name,
            "entry": list(block_key(sub.entry)),
            "blocks": sorted(_ids(sub.blocks)),
            "exit": sorted(_ids(sub.exit_blocks)),
            "retsub": sorted(_ids(sub.retsub_blocks)),
            "callers": sorted(_ids(sub.caller_blocks)),
            "return_points": sorted(_ids(sub.return_point_blocks)),
        }
    instructions = []
    for ins in teal.instructions:
        instructions.append(
            [
                ins.line,
                str(ins),
                _safe(lambda ins=ins: ins.bb.idx),
                sorted(i.line for i in ins.next),
                sorted(i.line for i in ins.prev),
                _safe(lambda ins=ins: ins.called_subroutine.name)
                if type(ins).__name__ == "Callsub"
                else None,
            ]
        )
    return {
        "version": teal.version,
        "mode": str(teal.mode),
        "bbs": bbs,
        "subs": subs,
        "sub_names": list(teal.subroutines.keys()),
        "instructions": instructions,
    }


# --------------------------------------------------------------------------- detector outputs


def output_obs(outputs: List[Any]) -> Dict[str, Any]:
    """Observation of the ListOutput returned by one detector run."""
    res = []
    for out in outputs:
        js = json.dumps(out.to_json(), indent=2)
        paths = None
        if hasattr(out, "paths"):
            paths = [[bb.idx for bb in p] for p in out.paths]
        elif hasattr(out, "instructions"):
            paths = [[ins.line for ins in p] for p in out.instructions]
        res.append({"type": type(out).__name__, "paths": paths, "json": js})
    return {"n": len(res), "outs": res}


# --------------------------------------------------------------------------- fragment membership


def outside_fragment(teal: Any) -> bool:
    """True when a block belongs to the main CFG and to a subroutine, or to two subroutines
    (a subroutine body entered other than through callsub): DESIGN §3.1(4)."""
    seen: Dict[int, str] = {}
    for name, sub in [("__main__", teal.main)] + sorted(teal.subroutines.items()):
        for bb in sub.blocks:
            if id(bb) in seen and seen[id(bb)] != name:
                return True
            seen[id(bb)] = name
    return False
