"""Systematic sweeps of the thorough tier (DESIGN §4.1, §3.4), on top of the random sessions.

pairwise_history : every ordered pair (A, B) of a prime-sized slice of the corpus occurs exactly
                   once as two consecutive `single` operations of one interpreter; B is compared.
fault_site_sweep : for a slice of contracts, for each tealer function entered by a fault-free
                   `single`, abort at its first (and, for the functions that touch shared state,
                   median and last) entry, then probe with compared operations.
all_paths_sweep  : every enumerated valid dispatch path of every corpus contract is built, in four
                   orders, on one live Teal per session (C12).
"""

# pylint: disable=too-many-locals

import hashlib
import os
import random
import time
from typing import Any, Dict, List

from sim import gen
from sim.check import Check, log


def _slice(chk: Check, items: List[str], n: int, salt: str) -> List[str]:
    key = lambda c: hashlib.sha256(f"{salt}:{chk.seed}:{c}".encode()).hexdigest()  # noqa: E731
    return sorted(items, key=key)[:n]


def pairwise_history(chk: Check) -> None:
    n = int(os.environ.get("SIM_PAIR_N", "43"))  # prime: every stride d generates a Hamiltonian cycle
    base = [c for c in chk.ctx.contracts if chk.ctx.info[c]["lines"] <= 200] + chk.ctx.bad_inputs
    items = _slice(chk, base, n, "pairs")
    n = len(items)
    specs: List[Dict[str, Any]] = []
    rng = random.Random("pairs:%d" % chk.seed)
    idx = 0
    dets = chk.ctx.detectors
    for d in range(1, n):
        cycle = [items[(k * d) % n] for k in range(n + 1)]  # n consecutive pairs (x, x+d)
        chunk = 31
        for s in range(0, n, chunk):
            part = cycle[s : s + chunk + 1]
            ops = []
            for u, cid in enumerate(part):
                ops.append({"op": "single", "c": cid, "dets": list(dets), "runs": None, "s1": "id", "uid": u})
            specs.append({"ops": ops, "hashseed": rng.choice(chk.ctx.hashseeds), "index": 1000000 + idx})
            idx += 1
    t0 = time.time()
    before = chk.stats["compared_ops"]
    for i in range(0, len(specs), 128):
        chk.run_batch(specs[i : i + 128], 1800.0)
        if len(chk.violations) >= 5:
            break
        log(f"[c14:pairs] sessions={min(i+128, len(specs))}/{len(specs)} t={time.time()-chk.t0:.0f}s")
    chk.stats["sweep_pairwise"] = {
        "slice": n,
        "ordered_pairs": n * (n - 1),
        "compared_ops": chk.stats["compared_ops"] - before,
        "wall_s": round(time.time() - t0, 1),
    }


def fault_site_sweep(chk: Check) -> None:
    ctx = chk.ctx
    slice_ = sorted(ctx.sites)[: int(os.environ.get("SIM_SITE_CONTRACTS", "6"))]
    specs: List[Dict[str, Any]] = []
    rng = random.Random("sites:%d" % chk.seed)
    idx = 0
    others = [c for c in ctx.small if c not in slice_] or ctx.contracts
    for cid in slice_:
        for site in sorted(ctx.sites[cid]):
            count = ctx.sites[cid][site]
            f, fn = site.split(":")
            ks = [1]
            if fn in gen.HOT_FUNCS and count > 1:
                ks += sorted(set([max(1, count // 2), count]) - {1})
            for k in ks:
                exc = rng.choice(["KeyboardInterrupt", "MemoryError", "RuntimeError"])
                other = rng.choice(others)
                dets = list(ctx.detectors)
                ops = [
                    {"op": "single", "c": cid, "dets": dets, "runs": list(dets), "s1": "id", "h": "X1", "uid": 0,
                     "fault": {"kind": "exc_call", "file": f, "func": fn, "k": k, "exc": exc}},
                    {"op": "single", "c": cid, "dets": dets, "runs": None, "s1": "id", "uid": 1},
                    {"op": "rerun", "h": "X1", "dets": [], "runs": list(dets), "s1": "id", "uid": 2},
                    {"op": "single", "c": other, "dets": dets, "runs": None, "s1": "rev", "uid": 3},
                ]
                specs.append({"ops": ops, "hashseed": rng.choice(ctx.hashseeds), "index": 2000000 + idx, "faulty": True})
                idx += 1
    t0 = time.time()
    before = chk.stats["faults_fired"].get("exc_call", 0)
    for i in range(0, len(specs), 128):
        chk.run_batch(specs[i : i + 128], 1800.0)
        if len(chk.violations) >= 5:
            break
        log(f"[c14:sites] sessions={min(i+128, len(specs))}/{len(specs)} t={time.time()-chk.t0:.0f}s")
    chk.stats["sweep_fault_sites"] = {
        "contracts": slice_,
        "sessions": len(specs),
        "faults_fired": chk.stats["faults_fired"].get("exc_call", 0) - before,
        "wall_s": round(time.time() - t0, 1),
    }


def all_paths_sweep(chk: Check, only: Any = None, max_paths: int = 100000) -> None:
    """`only`: restrict to these contracts (quick tier: a slice of the contracts with >= 2
    subroutines, whole-contract function first, then every other path, and the reverse)."""
    ctx = chk.ctx
    rng = random.Random("paths:%d" % chk.seed)
    specs: List[Dict[str, Any]] = []
    idx = 0
    total_paths = 0
    for cid in sorted(ctx.paths):
        if only is not None and cid not in only:
            continue
        if cid not in ctx.contracts and cid not in ctx.bad_inputs:
            continue
        paths = ctx.paths[cid][:max_paths]
        if len(paths) < 1:
            continue
        total_paths += len(paths)
        orders = [list(paths), list(reversed(paths))]
        for _ in range(2 if only is None else 0):
            p = list(paths)
            rng.shuffle(p)
            orders.append(p)
        for oi, order in enumerate(orders):
            s1 = ["id", "rev", rng.randrange(1, 2**31), rng.randrange(1, 2**31)][oi]
            for s in range(0, len(order), 40):
                ops: List[Dict[str, Any]] = [{"op": "parse", "c": cid, "h": "T1", "uid": 0}]
                for u, path in enumerate(order[s : s + 40]):
                    op = {"op": "build", "h": "T1", "path": list(path), "s1": s1, "uid": u + 1}
                    if u < 6:
                        op["f"] = "F%d" % u  # kept alive: re-snapshotted after every later build
                    ops.append(op)
                specs.append({"ops": ops, "hashseed": rng.choice(ctx.hashseeds), "index": 3000000 + idx})
                idx += 1
    t0 = time.time()
    before = chk.stats["compared_ops"]
    for i in range(0, len(specs), 128):
        chk.run_batch(specs[i : i + 128], 1800.0)
        if len(chk.violations) >= 5:
            break
        log(f"[c12:paths] sessions={min(i+128, len(specs))}/{len(specs)} t={time.time()-chk.t0:.0f}s")
    chk.stats["sweep_all_paths"] = {
        "paths": total_paths,
        "orders": 4,
        "sessions": len(specs),
        "compared_ops": chk.stats["compared_ops"] - before,
        "wall_s": round(time.time() - t0, 1),
    }


def detector_abort_sweep(chk: Check, n_contracts: int, n_k: int) -> None:
    """Abort a detector run at points spread over the whole path search (the amount of state a run
    has accumulated grows with time, so late abort points matter), then run every detector again on
    the very same Tealer object, then on a fresh one."""
    ctx = chk.ctx
    rng = random.Random("detabort:%d" % chk.seed)
    specs: List[Dict[str, Any]] = []
    idx = 0
    dets = list(ctx.detectors)
    cands = sorted(ctx.sites)
    rng.shuffle(cands)
    for cid in cands[:n_contracts]:
        for site in sorted(ctx.sites[cid]):
            f, fn = site.split(":")
            if not f.startswith("detectors/") or fn not in ("search_paths", "validated_in_block", "checks_field", "detect"):
                continue
            count = ctx.sites[cid][site]
            ks = sorted(set([count, max(1, count - 1), max(1, count - 3)] + [rng.randrange(1, count + 1) for _ in range(n_k)]))
            for k in ks[-(n_k + 2):] if fn != "search_paths" else ks:
                exc = rng.choice(["KeyboardInterrupt", "MemoryError", "RuntimeError"])
                first = list(dets)
                rng.shuffle(first)
                again = list(dets)
                rng.shuffle(again)
                ops = [
                    {"op": "single", "c": cid, "dets": dets, "runs": list(dets), "s1": "id", "h": "X1", "uid": 0,
                     "fault": {"kind": "exc_call", "file": f, "func": fn, "k": k, "exc": exc}},
                    {"op": "rerun", "h": "X1", "dets": [], "runs": again, "s1": "id", "uid": 1},
                    {"op": "single", "c": cid, "dets": first, "runs": None, "s1": "id", "uid": 2},
                ]
                if ctx.depth_probes and idx % 3 == 0:
                    # an aborted path search must not leave the interpreter's stack limit changed:
                    # the calibrated pair sits a few frames on either side of it
                    for c_ in ctx.depth_probes:
                        ops.append({"op": "single", "c": c_, "dets": ["rekey-to", "can-close-account"], "runs": None, "s1": "id", "uid": len(ops)})
                specs.append({"ops": ops, "hashseed": rng.choice(ctx.hashseeds), "index": 4000000 + idx, "faulty": True})
                idx += 1
    t0 = time.time()
    before = chk.stats["faults_fired"].get("exc_call", 0)
    for i in range(0, len(specs), 128):
        chk.run_batch(specs[i : i + 128], 1800.0)
        if len(chk.violations) >= 5:
            break
    log(f"[c14:detabort] sessions={len(specs)} t={time.time()-chk.t0:.0f}s")
    chk.stats["sweep_detector_abort"] = {
        "contracts": cands[:n_contracts],
        "sessions": len(specs),
        "faults_fired": chk.stats["faults_fired"].get("exc_call", 0) - before,
        "wall_s": round(time.time() - t0, 1),
    }


def build_abort_sweep(chk: Check, n_contracts: int, n_k: int) -> None:
    """C12: abort the build of one function at points spread over its whole analysis, then build a
    *different* function of the same contract on the same Teal object (they share the subroutine
    blocks), then the first one again."""
    ctx = chk.ctx
    rng = random.Random("buildabort:%d" % chk.seed)
    cands = [c for c in ctx.with_subs if c in ctx.contracts and len(ctx.paths.get(c, [])) > 2 and ctx.info[c]["lines"] <= 200]
    # contracts whose methods pin different group indices come first: what one function leaves
    # behind is only wrong for another one if their contexts differ inside the shared subroutine
    def pins(c: str) -> int:
        src = open(os.path.join(os.path.dirname(os.path.dirname(os.path.abspath(__file__))), "corpus", "teal", c + ".teal"), encoding="utf-8").read()
        return -min(3, src.count("txn GroupIndex"))

    ordered = sorted(_slice(chk, cands, len(cands), "buildabort"), key=pins)
    cands = ordered[:n_contracts]
    # enumeration pass: call sites of one build per contract
    jobs = []
    chosen: Dict[str, List[List[str]]] = {}
    for cid in cands:
        paths = [p for p in ctx.paths[cid] if len(p) > 1] or ctx.paths[cid]
        a = rng.choice(paths)
        others = [p for p in paths if p != a] or ctx.paths[cid]
        chosen[cid] = [a, rng.choice(others), rng.choice(others)]
        spec = {"ops": [{"op": "parse", "c": cid, "h": "T"}, {"op": "build", "h": "T", "path": a, "trace": "enumerate"}], "immut": False}
        jobs.append((cid, spec, 0))
    sites: Dict[str, Dict[str, int]] = {}
    for cid, res in chk.runner.run_many(jobs, timeout=600):
        evs = res.get("events", [])
        if len(evs) > 1 and evs[1].get("sites"):
            sites[cid] = {k: v for k, v in evs[1]["sites"].items() if k.startswith(("analyses/", "teal/parse_functions", "teal/functions"))}
    specs: List[Dict[str, Any]] = []
    idx = 0
    for cid in sorted(sites):
        names = sorted(sites[cid])
        hot = [s for s in names if s.split(":")[1] in gen.HOT_FUNCS]
        for _ in range(n_k):
            site = rng.choice(hot) if hot and rng.random() < 0.7 else rng.choice(names)
            count = sites[cid][site]
            k = rng.randrange(1, count + 1)
            f, fn = site.split(":")
            a, b, c = chosen[cid]
            exc = rng.choice(["KeyboardInterrupt", "MemoryError", "RuntimeError"])
            ops = [
                {"op": "parse", "c": cid, "h": "T1", "uid": 0},
                {"op": "build", "h": "T1", "path": list(a), "s1": "id", "uid": 1,
                 "fault": {"kind": "exc_call", "file": f, "func": fn, "k": k, "exc": exc}},
                {"op": "build", "h": "T1", "path": list(b), "s1": "id", "f": "F1", "uid": 2},
                {"op": "build", "h": "T1", "path": list(a), "s1": "id", "f": "F2", "uid": 3},
                {"op": "build", "h": "T1", "path": list(c), "s1": "id", "f": "F3", "uid": 4},
            ]
            specs.append({"ops": ops, "hashseed": rng.choice(ctx.hashseeds), "index": 5000000 + idx, "faulty": True})
            idx += 1
    t0 = time.time()
    before = chk.stats["faults_fired"].get("exc_call", 0)
    for i in range(0, len(specs), 128):
        chk.run_batch(specs[i : i + 128], 1800.0)
        if len(chk.violations) >= 5:
            break
    log(f"[c12:buildabort] sessions={len(specs)} t={time.time()-chk.t0:.0f}s")
    chk.stats["sweep_build_abort"] = {
        "contracts": sorted(sites),
        "sessions": len(specs),
        "faults_fired": chk.stats["faults_fired"].get("exc_call", 0) - before,
        "wall_s": round(time.time() - t0, 1),
    }


def address_reuse_sweep(chk: Check, n_pairs: int) -> None:
    """Object lifetime: analyse A (nothing kept), let it be collected, analyse B.  CPython hands
    B's objects the addresses A's objects had (the more alike the two contracts, the more exactly;
    reuse has period two, hence A twice), so anything remembered under id() or in a structure that
    outlives A is found again by B.  B = a near-twin of A, A itself, or another contract using the
    same instructions."""
    ctx = chk.ctx
    rng = random.Random("reuse:%d" % chk.seed)
    corpus_dir = os.path.join(os.path.dirname(os.path.dirname(os.path.abspath(__file__))), "corpus", "teal")

    def has(c: str, word: str) -> bool:
        return word in open(os.path.join(corpus_dir, c + ".teal"), encoding="utf-8").read()

    small = [c for c in ctx.contracts if ctx.info[c]["lines"] <= 200]
    gt = [c for c in small if has(c, "gtxns")]
    # every contract with each of its near-twins (both come up as A and as B over the rounds); the
    # budget n_pairs only limits the additional random pairs of contracts that use gtxns
    pairs = []
    seen = set()
    for a in sorted(ctx.twins):
        if a not in small:
            continue
        for t in ctx.twins[a]:
            key = tuple(sorted((a, t)))
            if key in seen or t not in small:
                continue
            seen.add(key)
            pairs.append((a, t) if a[0] not in "xyw" else (t, a))
    n_twin_pairs = len(pairs)
    extra = 0
    while extra < max(4, n_pairs // 6) and len(gt) >= 2:
        a, b = rng.sample(gt, 2)
        pairs.append((a, b))
        extra += 1
    specs: List[Dict[str, Any]] = []
    idx = 0
    dets = list(ctx.detectors)
    for a, b in pairs:
        # stale entries accumulate over the rounds, so many rounds in one interpreter are worth more
        # than many interpreters; most for the revisions that differ in a constant group index
        if a[0] in "xy" or b[0] in "xy":
            rounds = 16 if chk.tier == "quick" else 48
        else:
            rounds = 2 if chk.tier == "quick" else 8
        # whether B's objects land on A's old addresses depends on the state of the allocator, so one
        # session goes through many rounds of [A, collect, B, collect]; every B (and A) is compared
        ops: List[Dict[str, Any]] = []
        for r in range(rounds):
            ops.append({"op": "single", "c": a, "dets": dets, "runs": None, "s1": "id", "uid": len(ops)})
            if r % 3 != 2:
                ops.append({"op": "gc", "uid": len(ops)})
            if r % 4 == 3:
                ops.append({"op": "noise", "n": rng.choice([10, 100, 1000]), "seed": rng.randrange(2**31), "uid": len(ops)})
            ops.append({"op": "single", "c": b, "dets": dets, "runs": None, "s1": "id", "uid": len(ops)})
            ops.append({"op": "gc", "uid": len(ops)})
        specs.append({"ops": ops, "hashseed": rng.choice(ctx.hashseeds), "index": 6000000 + idx})
        idx += 1
    t0 = time.time()
    before = chk.stats["compared_ops"]
    for i in range(0, len(specs), 128):
        chk.run_batch(specs[i : i + 128], 1800.0)
        if len(chk.violations) >= 5:
            break
    log(f"[c14:reuse] sessions={len(specs)} t={time.time()-chk.t0:.0f}s")
    chk.stats["sweep_address_reuse"] = {
        "pairs": len(pairs),
        "twin_pairs": n_twin_pairs,
        "sessions": len(specs),
        "compared_ops": chk.stats["compared_ops"] - before,
        "wall_s": round(time.time() - t0, 1),
    }


def hashseed_sweep(chk: Check, per_contract: int, extra_for_subs: int = 0) -> None:
    """Every usable corpus contract is analysed (all detectors) under `per_contract` interpreter
    hash seeds other than the reference's, eight contracts per interpreter.  Hash-seed dependence
    needs no history, only the right input: the random sessions visit a contract under another
    seed only by chance, this sweep visits every one."""
    ctx = chk.ctx
    items = [c for c in ctx.contracts if ctx.info[c]["lines"] <= 400]
    dets = list(ctx.detectors)
    specs: List[Dict[str, Any]] = []
    subs = [c for c in items if c in ctx.with_subs]
    for rnd in range(per_contract + extra_for_subs):
        # orders that come from sets of subroutine names or labels show under some seeds only:
        # contracts with several subroutines get further seeds
        pool = items if rnd < per_contract else subs
        order = _slice(chk, pool, len(pool), "hs%d" % rnd)
        for s in range(0, len(order), 8):
            ops = [
                {"op": "single", "c": cid, "dets": dets, "runs": None, "s1": "id", "uid": u}
                for u, cid in enumerate(order[s : s + 8])
            ]
            hs = ctx.hashseeds[(s // 8 + rnd * 5) % len(ctx.hashseeds)]
            specs.append({"ops": ops, "hashseed": hs, "index": 6000000 + len(specs)})
    t0 = time.time()
    before = chk.stats["compared_ops"]
    for i in range(0, len(specs), 128):
        chk.run_batch(specs[i : i + 128], 900.0)
        if len(chk.violations) >= 5:
            break
    log(f"[c14:hashseed] sessions={len(specs)} t={time.time()-chk.t0:.0f}s")
    chk.stats["sweep_hashseed"] = {
        "contracts": len(items),
        "hash_seeds_per_contract": per_contract,
        "further_hash_seeds_for_contracts_with_2plus_subroutines": extra_for_subs,
        "sessions": len(specs),
        "compared_ops": chk.stats["compared_ops"] - before,
        "wall_s": round(time.time() - t0, 1),
    }


def cold_start_sweep(chk: Check, max_sites: int = 10, max_points: int = 24) -> None:
    """First-use windows.  An operation is executed twice in one fresh interpreter under a tracer
    that counts call and line events per tealer function; a function whose counts differ between
    the two executions runs code on first use only (lazy initialisation of process-wide state).
    Each such function is then aborted at every line event of its first entry (spread when there
    are more than `max_points`), in the very first operation of a fresh interpreter, and other
    contracts are analysed afterwards in the same interpreter.  A reference computed first can
    never see such a window; a session that starts cold and fails there can."""
    ctx = chk.ctx
    small = [c for c in ctx.small if c in ctx.contracts] or ctx.contracts
    with_subs = [c for c in small if c in ctx.with_subs] or small
    c1 = _slice(chk, with_subs, 1, "cold1")[0]
    c2 = _slice(chk, [c for c in small if c != c1], 1, "cold2")[0]
    dets = list(ctx.detectors)
    shapes: List[Dict[str, Any]] = [
        {"op": "single", "c": c1, "dets": dets, "runs": None, "s1": "id"},
        {"op": "cli", "c": c1, "argv": list(gen.JSON_ARGV), "s1": "id"},
    ]
    t0 = time.time()
    specs: List[Dict[str, Any]] = []
    found: Dict[str, Any] = {}
    for shape in shapes:
        probe = [dict(shape, trace="enumerate_lines", uid=0), dict(shape, trace="enumerate_lines", uid=1)]
        res = chk.runner.run({"ops": probe, "immut": False}, 0, timeout=900)
        evs = res.get("events", [])
        if len(evs) < 2 or "sites" not in evs[0] or "sites" not in evs[1]:
            chk.harness_problems.append("cold-start sweep: enumeration session did not complete")
            return
        chk.stats["traced_call_events"] += evs[0].get("events", 0) + evs[1].get("events", 0)
        a, b = evs[0], evs[1]
        keys = sorted(set(a["sites"]) | set(b["sites"]))
        first_only = [
            k for k in keys
            if a["sites"].get(k, 0) != b["sites"].get(k, 0) or a.get("site_lines", {}).get(k, 0) != b.get("site_lines", {}).get(k, 0)
        ]
        found[shape["op"]] = first_only
        for key in first_only[:max_sites]:
            f, fn = key.split(":")
            n_first = int(a.get("site_first_lines", {}).get(key, 0))
            if n_first <= 0:
                continue
            ns = list(range(1, n_first + 1))
            if len(ns) > max_points:
                ns = sorted(set(1 + (j * (n_first - 1)) // (max_points - 1) for j in range(max_points)))
            for n in ns:
                ops = [
                    dict(shape, uid=0, fault={"kind": "exc_line", "file": f, "func": fn, "k": 1, "n": n, "exc": "MemoryError"}),
                    {"op": "single", "c": c2, "dets": dets, "runs": None, "s1": "id", "uid": 1},
                    dict(shape, uid=2),
                ]
                specs.append({"ops": ops, "hashseed": ctx.hashseeds[len(specs) % len(ctx.hashseeds)], "index": 7000000 + len(specs), "faulty": True})
    before = chk.stats["faults_fired"].get("exc_line", 0)
    for i in range(0, len(specs), 128):
        chk.run_batch(specs[i : i + 128], 900.0)
        if len(chk.violations) >= 5:
            break
    log(f"[c14:coldstart] first-use functions={sum(len(v) for v in found.values())} sessions={len(specs)} t={time.time()-chk.t0:.0f}s")
    chk.stats["sweep_cold_start"] = {
        "contracts": [c1, c2],
        "functions_with_first_use_only_code": found,
        "sessions": len(specs),
        "faults_fired": chk.stats["faults_fired"].get("exc_line", 0) - before,
        "wall_s": round(time.time() - t0, 1),
    }
