"""MANIFEST.setup_cmd: offline sanity of what the checks need; builds nothing."""
import json, os, shutil, sys
V = os.path.dirname(os.path.dirname(os.path.abspath(__file__)))
def main() -> int:
    sys.path.insert(0, os.environ.get("TEALER_SRC", "/repo"))
    import logging; logging.disable(logging.CRITICAL)
    import tealer, yaml  # noqa
    idx = json.load(open(os.path.join(V, "corpus", "index.json")))
    missing = [e["file"] for e in idx if not os.path.exists(os.path.join(V, "corpus", e["file"]))]
    if missing:
        print("corpus files missing:", missing[:5]); return 1
    os.makedirs(os.path.join(V, "evidence"), exist_ok=True)
    os.makedirs(os.path.join(V, "replays"), exist_ok=True)
    print("ok: tealer", os.path.dirname(tealer.__file__), "corpus", len(idx), "setarch", bool(shutil.which("setarch")))
    return 0
if __name__ == "__main__":
    sys.exit(main())
