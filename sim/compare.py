"""Oracle: equality with the pristine reference, operation by operation (DESIGN §2.5, §2.6),
plus the step invariants of C12 and the envelope oracle of C18.

A mismatch is a dict {"kind", "expected", "observed"}; kinds are stable strings used to decide
whether a shrunk session still shows *the same* violation.
"""

import json
from typing import Any, Dict, List, Optional, Tuple


def mm(kind: str, expected: Any, observed: Any) -> Dict[str, Any]:
    return {"kind": kind, "expected": expected, "observed": observed}


def own_outcome_exempt(op: Dict[str, Any], ev: Dict[str, Any]) -> bool:
    """The (narrow) relaxation under faults: only the faulted operation's own outcome is not
    compared.  A configured fault that never fired relaxes nothing."""
    fault = op.get("fault")
    if fault is None:
        return False
    if fault["kind"] == "recursion":
        return True  # a lowered limit may legitimately change what the operation does
    return bool(ev.get("fault_fired"))


# pylint: disable=too-many-branches,too-many-return-statements
def compare_op(
    op: Dict[str, Any], ev: Dict[str, Any], ref: Optional[Dict[str, Any]], prop: str
) -> List[Dict[str, Any]]:
    out: List[Dict[str, Any]] = []
    if ev.get("outcome") == "skipped":
        return out
    # step invariant: nothing that already existed may have changed (C12 clause 2; C14 "running a
    # detector does not change the contexts another detector will read") — never relaxed
    for h in ev.get("immut", []):
        out.append(mm("immut:" + h, "unchanged", "changed"))
    if own_outcome_exempt(op, ev):
        return out
    kind = op["op"]
    if kind == "build" and prop == "C12":
        for s in ev.get("structure", []):
            out.append(mm("structure", "clause holds", s))
    if kind == "group" and prop == "C12":
        for k in sorted(ev.get("structure", {})):
            for s in ev["structure"][k]:
                out.append(mm("structure", "clause holds", k + ": " + s))
    if ref is None:
        return out
    if ref.get("outcome") == "unavailable":
        return out
    exp_o = [ref.get("outcome"), ref.get("exc")]
    obs_o = [ev.get("outcome"), ev.get("exc")]
    if kind in ("single", "rerun") and ref.get("outcome") == "ok" and ev.get("outcome") in ("internal_error", "declared_error"):
        # the reference judges every detector on its own: an operation that died inside detector D is
        # consistent iff D alone dies the same way in the pristine interpreter
        failed = ev.get("failed_det")
        rerr = {d[0]: d[2] for d in ref.get("obs", {}).get("dets", []) if len(d) > 2 and d[1] == "ERR"}
        if failed == "*" and rerr:
            if ev.get("exc") in list(rerr.values()):
                return out
        elif failed in rerr and rerr[failed] == ev.get("exc"):
            return out
        out.append(mm("outcome", exp_o + [rerr.get(failed)], obs_o + [ev.get("raised_in"), failed]))
        return out
    if exp_o != obs_o:
        out.append(mm("outcome", exp_o, obs_o + [ev.get("raised_in")]))
        return out
    if ev.get("outcome") != "ok":
        return out
    eo, ro = ev.get("obs", {}), ref.get("obs", {})
    if kind in ("single", "rerun"):
        if eo.get("ctx") != ro.get("ctx"):
            out.append(mm("ctx", ro.get("ctx"), eo.get("ctx")))
        rd = {d[0]: (d[1] if len(d) == 2 else ["ERR", d[2]]) for d in ro.get("dets", [])}
        for n, d in [(x[0], x[1]) for x in eo.get("dets", [])]:
            if n in rd and rd[n] != d:
                out.append(mm("det:" + n, rd[n], d))
        for j, c in enumerate(eo.get("ctx_after", [])):
            if c != eo.get("ctx"):
                name = eo["dets"][j][0] if j < len(eo.get("dets", [])) else "run_detectors"
                out.append(mm("ctx_after:" + name, eo.get("ctx"), c))
    elif kind == "parse":
        if eo.get("teal") != ro.get("teal"):
            out.append(mm("teal", ro.get("teal"), eo.get("teal")))
    elif kind == "build":
        if eo.get("graph") != ro.get("graph"):
            out.append(mm("graph", ro.get("graph"), eo.get("graph")))
        if eo.get("ctx") != ro.get("ctx"):
            out.append(mm("fctx", ro.get("ctx"), eo.get("ctx")))
    elif kind == "cli":
        argv = op.get("argv", [])
        # `print` and `regex` are history only (DESIGN §2.4): what they print is not a result the
        # property names; their exit status is still compared
        fields = ("exit",) if argv[:1] in (["print"], ["regex"]) else ("stdout", "exit", "files")
        for f in fields:
            if eo.get(f) != ro.get(f):
                out.append(mm(f, ro.get(f), eo.get(f)))
    elif kind == "group":
        rf, ef = ro.get("functions", {}), eo.get("functions", {})
        for k in sorted(ef):
            if k in rf and rf[k] != ef[k]:
                out.append(mm("gfunc:" + k, rf[k], ef[k]))
        # per-detector outputs are compared by the caller, each with its own single-detector reference
    return out


def ref_self_check(key: Tuple, ref: Dict[str, Any], alt: Optional[Dict[str, Any]]) -> List[Dict[str, Any]]:
    """The reference computed again under another hash seed with S1 reversed must agree."""
    if alt is None or ref.get("outcome") == "unavailable" or alt.get("outcome") == "unavailable":
        return []
    op = {"op": "single" if key[0] == "single" else key[0]}
    return compare_op(op, alt, ref, "C14")


# ------------------------------------------------------------------------------- C18 envelope


def extract_envelope(stdout: str) -> Optional[Dict[str, Any]]:
    i = stdout.find("{\n")
    if i < 0:
        return None
    try:
        return json.loads(stdout[i:])
    except ValueError:
        # something may follow the JSON document: find the matching end
        dec = json.JSONDecoder()
        try:
            obj, _ = dec.raw_decode(stdout[i:])
            return obj
        except ValueError:
            return None


def envelope_of(op: Dict[str, Any], ev: Dict[str, Any]) -> Tuple[Optional[Dict[str, Any]], Optional[str]]:
    """(envelope, raw json text) from stdout (`--json -`) or from the written file."""
    argv = op["argv"]
    target = argv[argv.index("--json") + 1] if "--json" in argv else None
    if target is None:
        return None, None
    if target == "-":
        so = ev.get("stdout", "")
        env = extract_envelope(so)
        return env, so[so.find("{\n") :] if env is not None else None
    for rel, content in ev.get("files", []):
        if rel.endswith("/" + target) or rel == target:
            try:
                return json.loads(content), content
            except (ValueError, TypeError):
                return None, None
    return None, None


def envelope_oracle(
    op: Dict[str, Any],
    ev: Dict[str, Any],
    api: Optional[Dict[str, Any]],
    twin: Optional[Dict[str, Any]],
    baseline: Optional[Dict[str, Any]] = None,
) -> List[Dict[str, Any]]:
    """C18, JSON envelope sentence (DESIGN §5.1).  `api` = full reference of ("single", c);
    `twin` = event of the same run in the other --json mode."""
    out: List[Dict[str, Any]] = []
    env, _raw = envelope_of(op, ev)
    if env is None:
        # a report file that was written but is not a JSON document is not "no envelope"
        argv = op["argv"]
        target = argv[argv.index("--json") + 1] if "--json" in argv else None
        if target not in (None, "-"):
            for rel, content in ev.get("files", []):
                if (rel.endswith("/" + target) or rel == target) and isinstance(content, str):
                    try:
                        json.loads(content)
                    except ValueError as e:
                        out.append(mm("file_not_json", "the report file holds one JSON document", f"{rel}: {e}"))
        return out  # no envelope, nothing else for this clause to judge
    reached_main = bool(ev.get("fault_fired")) and str(ev.get("fault_caught_in", "")).endswith("__main__.py:main")
    error_made = bool(op.get("misuse")) or reached_main
    if not isinstance(env, dict) or "success" not in env or "error" not in env or "result" not in env:
        out.append(mm("envelope_shape", "success/error/result", sorted(env) if isinstance(env, dict) else str(type(env))))
        return out
    if env["success"] != (env["error"] is None):
        out.append(mm("success_vs_error", {"success": env["error"] is None}, {"success": env["success"], "error": env["error"]}))
    seen = ev.get("handle_output_error")
    if isinstance(seen, list) and seen and seen[0] != "<unbound>":
        # ground truth: what main() had decided occurred when it produced the envelope
        if env["success"] != (seen[0] is None):
            out.append(mm("success_vs_occurred", {"success": seen[0] is None}, {"success": env["success"], "main_saw_error": seen[0]}))
        if env["error"] != seen[0]:
            out.append(mm("error_vs_main", seen[0], env["error"]))
    if error_made and env["error"] is None:
        out.append(mm("error_lost", "error reported: an exception reached main()", {"error": None, "success": env["success"]}))
    fault = op.get("fault")
    if fault and ev.get("fault_fired") and not error_made and env["error"] is None and baseline is not None:
        # The injected TealerException was caught before main().  That is only "no error occurred"
        # if the run still delivers what the fault-free run delivers; a run that claims success with
        # results missing has lost an error.
        benv, _ = envelope_of(baseline["op"], baseline["ev"])
        if benv is not None and benv.get("error") is None and benv.get("result") != env["result"]:
            out.append(
                mm(
                    "error_lost",
                    "error reported, or the complete fault-free result",
                    {
                        "success": env["success"],
                        "error": None,
                        "caught_in": ev.get("fault_caught_in"),
                        "result_checks": [r.get("check") for r in env["result"]],
                        "fault_free_checks": [r.get("check") for r in benv["result"]],
                    },
                )
            )
    if not error_made and not (fault and ev.get("fault_fired")) and api is not None and api.get("outcome") == "ok" and env["error"] is not None:
        out.append(mm("spurious_error", None, env["error"]))
    for r in env["result"]:
        if isinstance(r, dict) and "count" in r and "paths" in r and r["count"] != len(r["paths"]):
            out.append(mm("count", len(r["paths"]), r["count"]))
    if twin is not None:
        tenv, _ = envelope_of(twin["op"], twin["ev"])
        if tenv is not None and tenv != env:
            out.append(mm("file_vs_stdout", tenv, env))
    if api is not None and not error_made and env["error"] is None and api.get("outcome") == "ok":
        want: Dict[str, List[Any]] = {}
        for name in sorted(api.get("full", {}).get("dets", {})):
            want[name] = [json.loads(o["json"]) for o in api["full"]["dets"][name]["outs"]]
        got: Dict[str, List[Any]] = {}
        for r in env["result"]:
            got.setdefault(r.get("check", "?"), []).append(r)
        chosen = op.get("expect_dets")
        if chosen is not None and sorted(got) != sorted(n for n in chosen if want.get(n)):
            out.append(mm("result_detectors", sorted(n for n in chosen if want.get(n)), sorted(got)))
        for name in sorted(got):
            if name not in want:
                continue
            if op.get("filtered"):
                for r, w in zip(got[name], want[name]):
                    wp = w.get("paths", [])
                    if any(p not in wp for p in r.get("paths", [])):
                        out.append(mm("filtered_not_subset:" + name, "subset of API paths", r.get("paths")))
            elif got[name] != want[name]:
                out.append(mm("result_vs_api:" + name, want[name], got[name]))
    return out
