"""Session executor: the life of one Python interpreter in which a client uses tealer.

Started by sim.launch in a brand-new interpreter (ASLR off, fixed environment, chosen
PYTHONHASHSEED, TEALER_VERIF=1).  Reads one session spec (JSON) from stdin, executes its
operations against the real tealer code, records an event per operation and prints the event log
(JSON) on the original stdout.  It never judges: comparison with references is the orchestrator's
job, so any sub-sequence can be re-run the same way by the shrinker and by --replay.

Determinism rules for this file: no hash-ordered iteration reaches a decision or a digest, no
clock, no randomness except random.Random seeded from the spec.
"""

# pylint: disable=too-many-branches,too-many-statements,too-many-locals,broad-except,import-outside-toplevel

import gc
import hashlib
import io
import json
import logging
import os
import random
import shutil
import sys
from typing import Any, Dict, List, Optional, Tuple

logging.disable(logging.CRITICAL)

from sim import faults, observe, structure, synth  # noqa: E402

DEFAULT_RECURSION_LIMIT = 1000


class Quiet:
    """Suspends the fault tracer while the harness itself calls into tealer to *observe* (str() of
    enums and instructions, to_json, property getters): an injected fault must land in the operation,
    never in the observation of its result."""

    def __enter__(self) -> None:
        self.prev = sys.gettrace()  # pylint: disable=attribute-defined-outside-init
        sys.settrace(None)

    def __exit__(self, *a: Any) -> None:
        sys.settrace(self.prev)


class Session:
    def __init__(self, spec: Dict[str, Any], scratch: str, out: Any) -> None:
        self.spec = spec
        self.src = os.environ["TEALER_SRC"].rstrip("/")
        self.root = self.src + "/tealer/"
        self.scratch = scratch
        self.corpus = os.environ["SIM_CORPUS"]
        self.handles: Dict[str, Any] = {}
        self.handle_kind: Dict[str, str] = {}
        # immutability baselines: handle -> digest taken when the object was created
        self.base_digest: Dict[str, str] = {}
        self.noise_keep: List[Any] = []
        self.s1_memo: Dict[Tuple[int, ...], List[int]] = {}
        self.s1_mode: Any = "id"
        self.s1_rng = random.Random(0)
        self.s1_stats = {"calls": 0, "multi": 0, "nonid": 0}
        self.s1_perms: List[str] = []
        self.want_full = set(spec.get("full", []))
        self.check_immut = bool(spec.get("immut", True))
        self.sources: Dict[str, str] = {}
        self.real_stdout = out
        self._import_tealer()

    # ------------------------------------------------------------------ set-up
    def _import_tealer(self) -> None:
        import tealer  # noqa
        from tealer.utils import verif_hooks

        if not os.path.realpath(tealer.__file__).startswith(os.path.realpath(self.src) + "/"):
            raise RuntimeError(f"tealer imported from {tealer.__file__}, expected {self.src}")
        if not verif_hooks.ENABLED:
            raise RuntimeError("TEALER_VERIF hook is not enabled")
        verif_hooks.install_scheduler(self._schedule)
        self.s1_free = self._order_is_free()
        from tealer.detectors import all_detectors
        from tealer.detectors.abstract_detector import AbstractDetector
        from tealer.printers import all_printers
        from tealer.printers.abstract_printer import AbstractPrinter
        import inspect

        self.detectors: Dict[str, Any] = {}
        for name in sorted(dir(all_detectors)):
            d = getattr(all_detectors, name)
            if inspect.isclass(d) and issubclass(d, AbstractDetector) and d.NAME:
                self.detectors[d.NAME] = d
        self.printers: Dict[str, Any] = {}
        for name in sorted(dir(all_printers)):
            d = getattr(all_printers, name)
            if inspect.isclass(d) and issubclass(d, AbstractPrinter) and getattr(d, "NAME", ""):
                self.printers[d.NAME] = d

    @staticmethod
    def _order_is_free() -> bool:
        """Does Subroutine.called_subroutines (still) derive its order from iterating a set?  Only
        then is "any order of that list" inside what C14 quantifies over ("worklist orders induced by
        set iteration"); when the code fixes the order itself, permuting it would test more than the
        property states.  Decided from the source of the code under test, per interpreter."""
        import ast
        import inspect
        import textwrap
        from tealer.teal.subroutine import Subroutine

        try:
            fn = Subroutine.called_subroutines.fget
            fn = getattr(fn, "__wrapped__", fn)
            tree = ast.parse(textwrap.dedent(inspect.getsource(fn)))
        except (OSError, TypeError, SyntaxError):
            return False
        for node in ast.walk(tree):
            if isinstance(node, (ast.Set, ast.SetComp)):
                return True
            if isinstance(node, ast.Call) and isinstance(node.func, ast.Name) and node.func.id in ("set", "frozenset"):
                return True
        return False

    def _schedule(self, site: str, items: List[Any], key: Any) -> List[Any]:
        """H1.  While the code under test takes this order from a set of identity-hashed objects:
        canonicalise it (sort by name: removes the dependence on addresses) and apply the session's
        permutation; the permutation of one set of objects is fixed for the life of those objects,
        as it is for a real set.  When the code fixes the order itself: leave it alone."""
        self.s1_stats["calls"] += 1
        if not self.s1_free:
            return items
        canon = sorted(items, key=key)
        n = len(canon)
        if n < 2:
            return canon
        self.s1_stats["multi"] += 1
        mode = self.s1_mode
        if mode == "id":
            return canon
        if mode == "rev":
            perm = list(range(n - 1, -1, -1))
        else:
            memo_key = tuple(id(x) for x in canon)
            perm_ = self.s1_memo.get(memo_key)
            if perm_ is None:
                perm_ = list(range(n))
                self.s1_rng.shuffle(perm_)
                self.s1_memo[memo_key] = perm_
            perm = perm_
        if perm != list(range(n)):
            self.s1_stats["nonid"] += 1
            if len(self.s1_perms) < 64:
                self.s1_perms.append(",".join(key(canon[i]) for i in perm))
        return [canon[i] for i in perm]

    def source(self, cid: str) -> str:
        if cid not in self.sources and synth.is_synthetic(cid):
            self.sources[cid] = synth.source(cid) or ""
        if cid not in self.sources:
            with open(os.path.join(self.corpus, cid + ".teal"), encoding="utf-8") as f:
                self.sources[cid] = f.read()
        return self.sources[cid]

    def clean_scratch(self) -> None:
        for name in sorted(os.listdir(self.scratch)):
            p = os.path.join(self.scratch, name)
            if os.path.isdir(p) and not os.path.islink(p):
                shutil.rmtree(p, ignore_errors=True)
            else:
                try:
                    os.unlink(p)
                except OSError:
                    pass

    # ------------------------------------------------------------------ probes
    @staticmethod
    def cache_sizes() -> List[int]:
        out = []
        try:
            from tealer.analyses.utils import stack_ast_builder as sab

            for name in ("construct_stack_ast", "compute_equations"):
                f = getattr(sab, name, None)
                out.append(f.cache_info().currsize if hasattr(f, "cache_info") else -1)
        except Exception:
            out = [-1, -1]
        return out

    # ------------------------------------------------------------------ immutability step check
    def _digest_handle(self, h: str) -> str:
        kind = self.handle_kind[h]
        obj = self.handles[h]
        if kind == "teal":
            return observe.digest(observe.teal_graph(obj))
        if kind == "function":
            return observe.digest(observe.function_snapshot(obj))
        return ""

    def immut_check(self) -> List[str]:
        changed = []
        for h in list(self.base_digest):
            if h not in self.handles:
                continue
            try:
                d = self._digest_handle(h)
            except Exception as e:
                d = f"<{type(e).__name__}: {observe.norm_msg(str(e))}>"
            if d != self.base_digest[h]:
                changed.append(h)
        return changed

    def _register(self, h: str, kind: str, obj: Any, baseline: bool = True) -> None:
        self.handles[h] = obj
        self.handle_kind[h] = kind
        if baseline and kind in ("teal", "function"):
            with Quiet():
                self.base_digest[h] = self._digest_handle(h)

    # ------------------------------------------------------------------ operations
    def op_parse(self, op: Dict[str, Any], ev: Dict[str, Any]) -> None:
        from tealer.teal.parse_teal import parse_teal

        teal = parse_teal(self.source(op["c"]), op["c"])
        with Quiet():
            g = observe.teal_graph(teal)
            ev["obs"] = {"teal": observe.digest(g), "outside": observe.outside_fragment(teal)}
        if ev["i"] in self.want_full:
            ev["full"] = {"teal": g}
        if op.get("adj"):
            ev["adj"] = {str(b.idx): [n.idx for n in b.next] for b in teal.main.blocks}
            ev["entry"] = teal.main.entry.idx
            ev["nsubs"] = len(teal.subroutines)
        if op.get("h"):
            self._register(op["h"], "teal", teal)

    def op_build(self, op: Dict[str, Any], ev: Dict[str, Any]) -> None:
        from tealer.teal.parse_functions import construct_function

        teal = self.handles[op["h"]]
        function = construct_function(teal, list(op["path"]), op.get("name"))
        with Quiet():
            snap = observe.function_snapshot(function)
            ev["obs"] = {
                "graph": observe.digest(snap["graph"]),
                "ctx": observe.digest(snap["ctx"]),
            }
            ev["structure"] = structure.check_structure(teal, function, list(op["path"]))
        ev["nblocks"] = len(function.blocks)
        ev["nsubs"] = len(function.subroutines)
        if ev["i"] in self.want_full:
            with Quiet():
                ev["full"] = {"graph": snap["graph"], "ctx": observe.contexts_compact(function)}
        if op.get("f"):
            self._register(op["f"], "function", function)

    def _run_detectors(
        self,
        tealer: Any,
        function: Any,
        runs: Optional[List[str]],
        ev: Dict[str, Any],
        isolate: bool = False,
        post_filter: Optional[str] = None,
    ) -> None:
        full = ev["i"] in self.want_full
        with Quiet():
            ctx0 = observe.digest(observe.function_contexts(function)) if function is not None else ""
        ev["obs"]["ctx"] = ctx0
        dets: List[List[Any]] = []
        ctx_after: List[str] = []
        fullobs: Dict[str, Any] = {}
        by_name = {d.NAME: d for d in tealer.detectors}
        if runs is None:
            ev["failed_det"] = "*"
            results = tealer.run_detectors()
            ev.pop("failed_det", None)
            with Quiet():
                for d, res in zip(tealer.detectors, results):
                    o = observe.output_obs(res)
                    dets.append([d.NAME, observe.digest(o)])
                    if full:
                        fullobs[d.NAME] = o
                if function is not None:
                    ctx_after.append(observe.digest(observe.function_contexts(function)))
        else:
            for name in runs:
                if name not in by_name:
                    continue
                ev["failed_det"] = name  # removed again when the detector returns
                if isolate:
                    # reference mode: every detector gets a verdict of its own, a failing one must
                    # not take the others' references with it
                    try:
                        res = by_name[name].detect()
                    except Exception as e:  # noqa
                        dets.append([name, "ERR", [type(e).__name__, observe.norm_msg(str(e), self.scratch)]])
                        ev.pop("failed_det", None)
                        continue
                else:
                    res = by_name[name].detect()
                ev.pop("failed_det", None)
                with Quiet():
                    o = observe.output_obs(res)
                    dets.append([name, observe.digest(o)])
                    if full:
                        fullobs[name] = o
                    if function is not None:
                        ctx_after.append(observe.digest(observe.function_contexts(function)))
        ev["obs"]["dets"] = dets
        ev["obs"]["ctx_after"] = ctx_after
        ev.pop("failed_det", None)
        if post_filter is not None and runs is None:
            # what main() does with --filter-paths: the caller narrows the results it was handed
            for res in results:
                for out_ in res:
                    out_.filter_paths(post_filter)
        if full:
            ev["full"] = {"dets": fullobs}
            if function is not None:
                with Quiet():
                    ev["full"]["ctx"] = observe.contexts_compact(function)

    def op_single(self, op: Dict[str, Any], ev: Dict[str, Any]) -> None:
        from tealer.utils.command_line.common import init_tealer_from_single_contract

        cid = op["c"]
        tealer = init_tealer_from_single_contract(self.source(cid), cid)
        teal = tealer.contracts[cid]
        function = teal.functions[cid]
        ev["obs"] = {}
        if op.get("h"):
            self._register(op["h"], "tealer", tealer)
            self._register(op["h"] + ".t", "teal", teal)
            self._register(op["h"] + ".f", "function", function)
        self._side_printers(tealer, op, ev)
        for name in op.get("dets", []):
            tealer.register_detector(self.detectors[name])
        self._run_detectors(tealer, function, op.get("runs"), ev, bool(op.get("isolate")), op.get("post_filter"))

    def _side_printers(self, tealer: Any, op: Dict[str, Any], ev: Dict[str, Any]) -> None:
        """Printers (and the regex tool) run on the very same Tealer/Teal object before anything is
        observed: history on the object, not only in the process.  What they print is not judged and
        a printer that fails does not fail the operation."""
        errs = []
        for name in op.get("printers", []):
            try:
                if name == "regex":
                    from pathlib import Path
                    from tealer.utils.regex.regex import run_regex

                    with open(os.path.join(self.scratch, "regex.txt"), "w", encoding="utf-8") as f:
                        f.write("* =>\n int 1\n return\n")
                    run_regex(list(tealer.contracts.values())[0], "regex.txt", Path("regex_result.dot"))
                elif not any(type(p_).NAME == name for p_ in tealer.printers):
                    tealer.register_printer(self.printers[name])
                    tealer.printers[-1].print()
                else:
                    [p_ for p_ in tealer.printers if type(p_).NAME == name][0].print()
            except Exception as e:  # noqa
                if faults.is_injected(e):
                    raise
                errs.append([name, type(e).__name__])
        if errs:
            ev["printer_errors"] = errs

    def op_rerun(self, op: Dict[str, Any], ev: Dict[str, Any]) -> None:
        tealer = self.handles[op["h"]]
        function = self.handles.get(op["h"] + ".f")
        if function is None:
            function = list(list(tealer.contracts.values())[0].functions.values())[0]
        ev["obs"] = {}
        have = [d.NAME for d in tealer.detectors]
        for name in op.get("dets", []):
            if name not in have:
                tealer.register_detector(self.detectors[name])
                have.append(name)
        runs = op.get("runs")
        if runs is not None:
            runs = [r for r in runs if r in have]
        self._side_printers(tealer, op, ev)
        self._run_detectors(tealer, function, runs, ev, False, op.get("post_filter"))

    def op_cli(self, op: Dict[str, Any], ev: Dict[str, Any]) -> None:
        import tealer.__main__ as tmain

        cid = op["c"]
        fname = op.get("fname") or (cid + ".teal")
        with open(os.path.join(self.scratch, fname), "w", encoding="utf-8") as f:
            f.write(self.source(cid))
        skip = {fname}
        for extra in op.get("files", []):
            with open(os.path.join(self.scratch, extra["name"]), "w", encoding="utf-8") as f:
                f.write(extra["text"])
            skip.add(extra["name"])
        for other in op.get("contracts", []):
            with open(os.path.join(self.scratch, other + ".teal"), "w", encoding="utf-8") as f:
                f.write(self.source(other))
            skip.add(other + ".teal")
        # files already there (kept from earlier runs of this session) and their stamps
        before: Dict[str, Tuple[int, int]] = {}
        for root, _dirs, names in os.walk(self.scratch):
            for n in names:
                p0 = os.path.join(root, n)
                st0 = os.stat(p0)
                before[os.path.relpath(p0, self.scratch)] = (st0.st_size, st0.st_mtime_ns)
        argv = ["tealer"] + [a.replace("{C}", fname) for a in op["argv"]]
        old_argv = sys.argv
        sys.argv = argv
        code: Any = None
        # ground truth for the envelope: what main() decided had occurred when it called
        # handle_output (observed by wrapping the module attribute for this one call)
        real_handle_output = tmain.handle_output
        seen: List[Any] = []

        def handle_output_probe(*a: Any, **kw: Any) -> Any:
            import inspect

            try:
                seen.append(inspect.signature(real_handle_output).bind(*a, **kw).arguments.get("error"))
            except TypeError:
                seen.append("<unbound>")
            return real_handle_output(*a, **kw)

        tmain.handle_output = handle_output_probe
        # the hidden --debug flag only changes logger levels; the harness keeps logging switched
        # off (import-time basicConfig(DEBUG) would flood stderr), so for a --debug run the loggers
        # are live for this one call, with a sink instead of the stream handler
        debug_run = "--debug" in argv
        root_logger = logging.getLogger()
        saved_handlers = root_logger.handlers[:]
        if debug_run:
            root_logger.handlers = [logging.NullHandler()]
            logging.disable(logging.NOTSET)
        try:
            try:
                tmain.main()
            except SystemExit as e:
                code = e.code if isinstance(e.code, (int, type(None))) else str(e.code)
        finally:
            if debug_run:
                logging.disable(logging.CRITICAL)
                root_logger.handlers = saved_handlers
            sys.argv = old_argv
            tmain.handle_output = real_handle_output
            ev["handle_output_error"] = seen[:1] if seen else None
        out = sys.stdout.getvalue()  # type: ignore
        files = []
        for root, _dirs, names in sorted(os.walk(self.scratch)):
            for n in sorted(names):
                p = os.path.join(root, n)
                rel = os.path.relpath(p, self.scratch)
                if rel in skip:
                    continue
                st1 = os.stat(p)
                if before.get(rel) == (st1.st_size, st1.st_mtime_ns):
                    continue  # left by an earlier run and not touched by this one
                if n.endswith(".json"):
                    with open(p, encoding="utf-8") as f:
                        files.append([rel, f.read()])
                else:
                    # DOT exports are named, not compared: their bytes are not among the results C14
                    # names (the call-graph printer, for one, lists edges in set order)
                    files.append([rel, ""])
        ev["obs"] = {
            "stdout": observe.digest(out),
            "exit": code,
            "files": observe.digest(files),
        }
        if op.get("envelope") or ev["i"] in self.want_full:
            # never cut a document the oracle parses: a shortened JSON text is not JSON (above the
            # cap the item is dropped and counted, not truncated)
            cap = 32 * 1024 * 1024
            ev["stdout"] = out if len(out) < cap else ""
            ev["files"] = [[r, c] for r, c in files if len(c) < cap]
            if len(out) >= cap or any(len(c) >= cap for _r, c in files):
                ev["oversize_output_dropped"] = True

    def op_printer(self, op: Dict[str, Any], ev: Dict[str, Any]) -> None:
        from tealer.utils.command_line.common import init_tealer_from_single_contract

        cid = op["c"]
        tealer = init_tealer_from_single_contract(self.source(cid), cid)
        tealer.register_printer(self.printers[op["name"]])
        tealer.run_printers()
        ev["obs"] = {}

    def op_regex(self, op: Dict[str, Any], ev: Dict[str, Any]) -> None:
        from pathlib import Path
        from tealer.teal.parse_teal import parse_teal
        from tealer.utils.regex.regex import run_regex

        with open(os.path.join(self.scratch, "regex.txt"), "w", encoding="utf-8") as f:
            f.write(op["pattern"])
        teal = parse_teal(self.source(op["c"]), op["c"])
        run_regex(teal, "regex.txt", Path("regex_result.dot"))
        ev["obs"] = {}

    def op_group(self, op: Dict[str, Any], ev: Dict[str, Any]) -> None:
        from pathlib import Path
        from tealer.utils.command_line.common import init_tealer_from_config
        from tealer.utils.command_line.group_config import read_config_from_file

        for c in op["contracts"]:
            with open(os.path.join(self.scratch, c + ".teal"), "w", encoding="utf-8") as f:
                f.write(self.source(c))
        with open(os.path.join(self.scratch, "config.yaml"), "w", encoding="utf-8") as f:
            f.write(op["yaml"])
        config = read_config_from_file(Path("config.yaml"))
        tealer = init_tealer_from_config(config)
        self._side_printers(tealer, op, ev)
        ev["obs"] = {"functions": {}}
        full = ev["i"] in self.want_full
        fulls: Dict[str, Any] = {}
        structs: Dict[str, List[str]] = {}
        quiet = Quiet()
        quiet.__enter__()
        for cname in sorted(tealer.contracts):
            teal = tealer.contracts[cname]
            for fname in sorted(teal.functions):
                fn = teal.functions[fname]
                snap = observe.function_snapshot(fn)
                ev["obs"]["functions"][cname + "/" + fname] = [
                    observe.digest(snap["graph"]),
                    observe.digest(snap["ctx"]),
                ]
                key = cname + "/" + fname
                path = op.get("paths", {}).get(key)
                if path:
                    st = structure.check_structure(teal, fn, list(path))
                    if st:
                        structs[key] = st
                if full:
                    fulls[key] = {"graph": snap["graph"], "ctx": observe.contexts_compact(fn)}
                if op.get("h"):
                    self._register(op["h"] + "." + key, "function", fn)
            if op.get("h"):
                # contract_type is set by the config after parsing: baseline taken here
                self._register(op["h"] + "." + cname, "teal", teal)
        ev["structure"] = structs
        quiet.__exit__()
        for name in op.get("dets", []):
            tealer.register_detector(self.detectors[name])
        dets = []
        dets_ord: List[Any] = []
        results = tealer.run_detectors()
        with Quiet():
            for d, res in zip(tealer.detectors, results):
                o = observe.output_obs(res)
                # ... while for one and the same config text the outputs come in one order
                # (compared with the pristine run of exactly this config)
                dets_ord.append([d.NAME, observe.digest(o)])
                if full:
                    fulls["detord:" + d.NAME] = json.loads(json.dumps(o))
                # one output per (operation, transaction): compared as a multiset, the order in
                # which a config lists its operations is not part of the result
                # ... and a contract's findings are listed function by function in the order the
                # config lists the functions: entries inside one output are a multiset as well
                for out_ in o["outs"]:
                    j_ = json.loads(out_["json"])
                    if isinstance(j_.get("paths"), list):
                        j_["paths"] = sorted(j_["paths"], key=lambda x: json.dumps(x, sort_keys=True))
                    out_["json"] = json.dumps(j_, sort_keys=True)
                    if isinstance(out_.get("paths"), list):
                        out_["paths"] = sorted(out_["paths"])
                o["outs"] = sorted(o["outs"], key=lambda x: x["json"])
                dets.append([d.NAME, observe.digest(o)])
                if full:
                    fulls["det:" + d.NAME] = o
        ev["obs"]["dets"] = dets
        ev["obs"]["dets_ord"] = dets_ord
        if full:
            ev["full"] = fulls

    def op_noise(self, op: Dict[str, Any], ev: Dict[str, Any]) -> None:
        """A1 exploration knob: allocate and free a seeded pattern of objects of the size classes
        tealer uses, keeping a seeded subset alive, to shift the addresses later objects get."""
        rng = random.Random(op.get("seed", 0))
        junk: List[Any] = []
        for _ in range(int(op.get("n", 100))):
            r = rng.random()
            if r < 0.3:
                junk.append(object())
            elif r < 0.5:
                junk.append([None] * rng.randrange(1, 40))
            elif r < 0.7:
                junk.append({"k" + str(j): j for j in range(rng.randrange(1, 12))})
            elif r < 0.85:
                junk.append("x" * rng.randrange(1, 200))
            else:
                junk.append(set(range(rng.randrange(1, 30))))
        keep = [x for x in junk if rng.random() < 0.2]
        self.noise_keep.append(keep)
        if len(self.noise_keep) > 4:
            self.noise_keep.pop(0)
        ev["obs"] = {}

    def op_gc(self, op: Dict[str, Any], ev: Dict[str, Any]) -> None:
        # "t": a tuning knob of the interpreter under test, randomised per session: when cyclic
        # garbage (a dropped Teal and its blocks) is reclaimed decides which addresses are reused
        # and when weakly referenced cache entries disappear
        t = op.get("t")
        if t == "off":
            gc.disable()
        elif t == "on":
            gc.enable()
        elif isinstance(t, list):
            gc.enable()
            gc.set_threshold(*[int(x) for x in t])
        else:
            gc.collect()
        ev["obs"] = {}

    def op_drop(self, op: Dict[str, Any], ev: Dict[str, Any]) -> None:
        pref = op["h"]
        for h in [x for x in self.handles if x == pref or x.startswith(pref + ".")]:
            self.handles.pop(h, None)
            self.handle_kind.pop(h, None)
            self.base_digest.pop(h, None)
        ev["obs"] = {}

    def op_info(self, op: Dict[str, Any], ev: Dict[str, Any]) -> None:
        ev["detectors"] = sorted(self.detectors)
        ev["printers"] = sorted(self.printers)
        ev["obs"] = {}

    # ------------------------------------------------------------------ driver
    def run_op(self, i: int, op: Dict[str, Any]) -> Dict[str, Any]:
        from tealer.exceptions import TealerException

        ev: Dict[str, Any] = {"i": i, "op": op["op"]}
        if "uid" in op:
            ev["uid"] = op["uid"]
        if op["op"] in ("build", "rerun") and op["h"] not in self.handles:
            # the operation that should have created the handle was aborted by a fault
            ev["outcome"] = "skipped"
            return ev
        ev["cache0"] = self.cache_sizes()
        s1 = op.get("s1", self.spec.get("s1", "id"))
        self.s1_mode = s1
        if isinstance(s1, int):
            self.s1_rng = random.Random(s1)
        self.s1_stats = {"calls": 0, "multi": 0, "nonid": 0}
        self.s1_perms = []
        fault = op.get("fault")
        tracer: Optional[faults.Tracer] = None
        shim: Optional[faults.IoShim] = None
        real_stdout, real_stderr = sys.stdout, sys.stderr
        sys.stdout = io.StringIO()
        sys.stderr = io.StringIO()
        handler = getattr(self, "op_" + op["op"])
        limit_before = sys.getrecursionlimit()
        try:
            if fault is not None:
                kind = fault["kind"]
                if kind in ("exc_call", "exc_line", "detector"):
                    tracer = faults.Tracer(self.root, kind, fault)
                elif kind == "recursion":
                    sys.setrecursionlimit(faults.stack_depth() + int(fault["n"]))
                elif kind == "io":
                    shim = faults.IoShim(
                        self.root, int(fault["k"]), fault.get("exc", "ENOSPC"), bool(fault.get("writes_only"))
                    )
                    shim.install()
            if tracer is None and op.get("trace"):
                tracer = faults.Tracer(self.root, op["trace"])
            if tracer is not None:
                sys.settrace(tracer)
            try:
                handler(op, ev)
            finally:
                sys.settrace(None)
                if shim is not None:
                    shim.remove()
                if fault is not None and fault["kind"] == "recursion":
                    # only undo what the harness itself changed: a limit tealer leaves behind is
                    # state of the process under test
                    sys.setrecursionlimit(limit_before)
            ev["outcome"] = "ok"
        except BaseException as e:  # noqa
            sys.settrace(None)
            if faults.is_injected(e):
                ev["outcome"] = "fault"
            elif isinstance(e, (TealerException, SystemExit)):
                ev["outcome"] = "declared_error"
            else:
                ev["outcome"] = "internal_error"
            ev["exc"] = [type(e).__name__, observe.norm_msg(str(e), self.scratch)]
            if not isinstance(e, SystemExit):
                tb = e.__traceback__
                last = None
                while tb is not None:
                    if tb.tb_frame.f_code.co_filename.startswith(self.root):
                        last = tb.tb_frame.f_code
                    tb = tb.tb_next
                if last is not None:
                    ev["raised_in"] = last.co_filename[len(self.root) :] + ":" + last.co_name
            ev.pop("full", None)
        finally:
            sys.stdout, sys.stderr = real_stdout, real_stderr
        if fault is not None:
            fired = False
            where = None
            if tracer is not None:
                fired, where = tracer.fired, tracer.fired_at
            elif shim is not None:
                fired, where = shim.fired, shim.fired_at
            elif fault["kind"] == "recursion":
                fired = ev.get("exc", [""])[0] == "RecursionError"
                where = ev.get("raised_in")
                if fired:
                    ev["outcome"] = "fault"
            ev["fault_fired"] = fired
            ev["fault_at"] = where
        if tracer is not None and tracer.exc_obj is not None:
            ev["fault_caught_in"] = faults.caught_in(tracer.exc_obj, self.root)
            tracer.exc_obj = None
        if tracer is not None:
            ev["events"] = tracer.events
            if tracer.mode == "enumerate_lines":
                ev["sites"] = tracer.sites
                ev["site_lines"] = tracer.lines
                ev["site_first_lines"] = tracer.first_lines
            if tracer.mode == "enumerate":
                ev["sites"] = tracer.sites
                ev["detector_events"] = tracer.detector_events
            if tracer.mode == "detector":
                ev["detector_events"] = tracer.detector_events
        ev["s1"] = dict(self.s1_stats)
        ev["s1"]["free"] = self.s1_free
        if self.s1_perms:
            ev["s1"]["perms"] = self.s1_perms
        ev["cache1"] = self.cache_sizes()
        # heap-layout probe for the determinism self-test (never compared with a reference)
        ev["addr"] = id(ev) & 0xFFFFFFF
        if self.check_immut:
            ev["immut"] = self.immut_check()
        if not op.get("keep_files"):
            # keep_files: the export directory is durable state that outlives a run (a later run
            # finds the files an earlier one wrote)
            self.clean_scratch()
        return ev

    def run(self, spec_file: Any) -> Dict[str, Any]:
        os.chdir(self.scratch)
        out = self.real_stdout
        i = -1
        while True:
            line = spec_file.readline()  # one operation at a time: see sim.launch.Runner.run
            if not line:
                break
            i += 1
            op = json.loads(line)
            ev = self.run_op(i, op)
            # one line per event, flushed, so a watchdog kill still tells which operation hung
            out.write(json.dumps(ev) + "\n")
            out.flush()
        return {"done": True, "hashseed": os.environ.get("PYTHONHASHSEED")}


def preload() -> None:
    """Import everything an operation can need, so that a zygote's children start from the state
    of an interpreter that has imported tealer and analysed nothing."""
    import tealer.__main__  # noqa
    import tealer.teal.parse_functions  # noqa
    import tealer.utils.regex.regex  # noqa
    import tealer.utils.command_line.group_config  # noqa
    import tealer.printers.all_printers  # noqa
    import tealer.detectors.all_detectors  # noqa
    import pathlib, inspect, traceback  # noqa
    # imported lazily by prettytable when a listing is printed (found by diffing sys.modules over a
    # session that walks the whole CLI vocabulary): a child that compiles a module the first time
    # starts the next operation from another heap than one that loads it from the cache
    for name in ("wcwidth", "secrets"):
        try:
            __import__(name)
        except ImportError:
            pass


def run_session(scratch: str) -> None:
    """Executes <scratch>/spec.json, streaming one JSON event per line to <scratch>/out.jsonl."""
    spec_file = open(os.path.join(scratch, "spec.json"), encoding="utf-8")  # pylint: disable=consider-using-with
    spec = json.loads(spec_file.readline())
    out = open(os.path.join(scratch, "out.jsonl"), "w", encoding="utf-8")  # pylint: disable=consider-using-with
    work = os.path.join(scratch, "w")
    os.mkdir(work)
    try:
        log = Session(spec, work, out).run(spec_file)
    except BaseException as e:  # noqa
        import traceback

        log = {"harness_error": f"{type(e).__name__}: {e}", "trace": traceback.format_exc()}
    out.write(json.dumps(log) + "\n")
    out.flush()
    out.close()


def main() -> None:
    # exec mode: one interpreter per session, scratch directory given in SIM_SCRATCH
    preload()
    run_session(os.environ["SIM_SCRATCH"])


if __name__ == "__main__":
    main()
