"""Fault delivery inside the session interpreter (DESIGN §2.3, §2.7).

No repo hook is used: exceptions are delivered from a sys.settrace tracer at the k-th entry
(or n-th line after the k-th entry) of a chosen tealer function; I/O errors from a shim around
builtins.open / os.makedirs that only looks at calls issued by tealer code; resource faults by
lowering the recursion limit for one operation.

Everything injected carries MARK in its message so that the session can tell "the simulator's own
exception came back out" (outcome class `fault`) from an error of tealer's.
"""

import builtins
import errno
import os
import sys
from typing import Any, Callable, Dict, Optional

MARK = "SIM-INJECTED"


def _make_exc(name: str) -> BaseException:
    e = _make_exc_raw(name)
    try:
        setattr(e, "_sim_injected", True)
    except Exception:  # pylint: disable=broad-except
        pass
    return e


def _make_exc_raw(name: str) -> BaseException:
    if name == "TealerExceptionBare":
        # what the accessors of BlockTransactionContext raise: no message at all
        from tealer.exceptions import TealerException  # pylint: disable=import-outside-toplevel

        return TealerException()
    if name == "KeyboardInterrupt":
        return KeyboardInterrupt(MARK)
    if name == "MemoryError":
        return MemoryError(MARK)
    if name == "RuntimeError":
        return RuntimeError(MARK)
    if name == "TealerException":
        from tealer.exceptions import TealerException  # pylint: disable=import-outside-toplevel

        return TealerException(MARK)
    if name == "ENOSPC":
        return OSError(errno.ENOSPC, MARK)
    if name == "EACCES":
        return PermissionError(errno.EACCES, MARK)
    raise ValueError(f"unknown exception kind {name}")


def is_injected(exc: BaseException) -> bool:
    e: Optional[BaseException] = exc
    seen = 0
    while e is not None and seen < 8:
        if getattr(e, "_sim_injected", False) or MARK in str(e) or (isinstance(e, OSError) and e.strerror == MARK):
            return True
        e = e.__cause__ or e.__context__
        seen += 1
    return False


class Tracer:
    """Global call-event tracer restricted to frames of files under `root` (tealer's source).

    mode 'count'      : only counts call events (the simulator's notion of elapsed steps)
    mode 'enumerate'  : counts call events per (relative file, function)
    mode 'enumerate_lines' : call and line events per function (cold-start sweep)
    mode 'exc_call'   : raise at the k-th entry of (file, func)
    mode 'exc_line'   : after the k-th entry of (file, func), raise at its n-th line event
    mode 'detector'   : raise at the k-th call event inside tealer/detectors/*, counted only until
                        tealer.__main__.handle_output is entered (C18 fault window)
    """

    def __init__(self, root: str, mode: str, spec: Optional[Dict[str, Any]] = None) -> None:
        self.root = root.rstrip("/") + "/"
        self.mode = mode
        self.spec = spec or {}
        self.events = 0
        self.hits = 0
        self.fired = False
        self.fired_at: Optional[str] = None
        self.exc_obj: Optional[BaseException] = None
        self.sites: Dict[str, int] = {}
        self.lines: Dict[str, int] = {}
        self.first_lines: Dict[str, int] = {}
        self._first_frames: Dict[int, str] = {}
        self._frame_key: Dict[int, str] = {}
        self.detector_events = 0
        self.in_output = False
        self._lines = 0
        self._file = self.spec.get("file", "")
        self._func = self.spec.get("func", "")
        self._k = int(self.spec.get("k", 1))
        self._n = int(self.spec.get("n", 1))
        self._exc = self.spec.get("exc", "RuntimeError")
        self._det_prefix = self.root + "detectors/"

    # pylint: disable=too-many-return-statements,too-many-branches
    def __call__(self, frame: Any, event: str, arg: Any) -> Optional[Callable]:
        if event != "call":
            return None
        code = frame.f_code
        fn = code.co_filename
        if not fn.startswith(self.root):
            return None
        self.events += 1
        mode = self.mode
        if mode == "count":
            return None
        if mode == "enumerate_lines":
            # call and line events per function, and the line events of each function's first
            # entry: what the cold-start sweep diffs between the first and the second execution
            # of one operation to find code that only runs on first use
            key = fn[len(self.root) :] + ":" + code.co_name
            self.sites[key] = self.sites.get(key, 0) + 1
            if key not in self.first_lines:
                self.first_lines[key] = 0
                self._first_frames[id(frame)] = key
            self._frame_key[id(frame)] = key
            return self._count_lines
        if mode == "enumerate":
            key = fn[len(self.root) :] + ":" + code.co_name
            self.sites[key] = self.sites.get(key, 0) + 1
            if fn.startswith(self._det_prefix) and not self.in_output:
                self.detector_events += 1
            if code.co_name == "handle_output" and fn.endswith("__main__.py"):
                self.in_output = True
            return None
        if mode == "detector":
            if code.co_name == "handle_output" and fn.endswith("__main__.py"):
                self.in_output = True
                return None
            if self.in_output or self.fired:
                return None
            if fn.startswith(self._det_prefix):
                self.detector_events += 1
                if self.detector_events == self._k:
                    self.fired = True
                    self.fired_at = fn[len(self.root) :] + ":" + code.co_name
                    self.exc_obj = _make_exc("TealerExceptionBare" if self.spec.get("bare") else "TealerException")
                    raise self.exc_obj
            return None
        # exc_call / exc_line
        if self.fired:
            return None
        if code.co_name == self._func and fn.endswith(self._file):
            self.hits += 1
            if self.hits == self._k:
                if mode == "exc_call":
                    self.fired = True
                    self.fired_at = fn[len(self.root) :] + ":" + code.co_name
                    self.exc_obj = _make_exc(self._exc)
                    raise self.exc_obj
                return self._line_tracer
        return None

    def _count_lines(self, frame: Any, event: str, arg: Any) -> Optional[Callable]:
        fid = id(frame)
        if event == "line":
            key = self._frame_key.get(fid)
            if key is not None:
                self.lines[key] = self.lines.get(key, 0) + 1
                if fid in self._first_frames:
                    self.first_lines[key] += 1
        elif event == "return":
            self._frame_key.pop(fid, None)
            self._first_frames.pop(fid, None)
        return self._count_lines

    def _line_tracer(self, frame: Any, event: str, arg: Any) -> Optional[Callable]:
        if event == "line" and not self.fired:
            self._lines += 1
            if self._lines == self._n:
                self.fired = True
                self.fired_at = (
                    frame.f_code.co_filename[len(self.root) :]
                    + ":"
                    + frame.f_code.co_name
                    + f"@line{frame.f_lineno}"
                )
                self.exc_obj = _make_exc(self._exc)
                raise self.exc_obj
        return self._line_tracer


def caught_in(exc: Optional[BaseException], root: str) -> Optional[str]:
    """Where an injected exception stopped propagating: the outermost frame its traceback
    recorded is the frame whose handler caught it."""
    if exc is None or exc.__traceback__ is None:
        return None
    code = exc.__traceback__.tb_frame.f_code
    fn = code.co_filename
    root = root.rstrip("/") + "/"
    if fn.startswith(root):
        return fn[len(root) :] + ":" + code.co_name
    return "<harness>:" + code.co_name


class _TornFile:
    """File object handed to tealer by the k-th write-mode open of a `TORN` I/O fault: the first
    write stores the first half of its data on disk and then fails with ENOSPC (a torn write:
    the half-written file stays in the export directory for whatever runs next)."""

    def __init__(self, f: Any, shim: "IoShim", site: str) -> None:
        self._f = f
        self._shim = shim
        self._site = site

    def write(self, data: Any) -> Any:
        if self._shim.fired:
            return self._f.write(data)
        self._shim.fired = True
        self._shim.fired_at = "torn_write@" + self._site
        self._f.write(data[: len(data) // 2])
        self._f.flush()
        raise _make_exc("ENOSPC")

    def __enter__(self) -> "_TornFile":
        return self

    def __exit__(self, *a: Any) -> None:
        self._f.close()

    def __getattr__(self, name: str) -> Any:
        return getattr(self._f, name)


class IoShim:
    """Pass-through shim for builtins.open / os.makedirs as seen from tealer code; raises OSError
    on the k-th call issued by a frame whose file is under `root` (exc `TORN`: the k-th write-mode
    open succeeds and its first write is torn, see _TornFile)."""

    def __init__(self, root: str, k: int, exc: str = "ENOSPC", writes_only: bool = False) -> None:
        self.root = root.rstrip("/") + "/"
        self.k = k
        self.exc = exc
        self.calls = 0
        self.fired = False
        self.fired_at: Optional[str] = None
        self.writes_only = writes_only or exc == "TORN"
        self.torn_site: Optional[str] = None
        self._open = builtins.open
        self._makedirs = os.makedirs

    def _from_tealer(self) -> Optional[str]:
        f = sys._getframe(3)  # open_/makedirs_ -> _tick -> _from_tealer
        fn = f.f_code.co_filename
        if fn.startswith(self.root):
            return fn[len(self.root) :] + ":" + f.f_code.co_name
        return None

    def _tick(self, what: str) -> None:
        site = self._from_tealer()
        if site is None or self.fired:
            return
        self.calls += 1
        if self.calls == self.k:
            if self.exc == "TORN":
                self.torn_site = site
                return
            self.fired = True
            self.fired_at = f"{what}@{site}"
            raise _make_exc(self.exc)

    def install(self) -> None:
        shim = self

        def open_(*args: Any, **kwargs: Any) -> Any:
            mode = args[1] if len(args) > 1 else kwargs.get("mode", "r")
            if not shim.writes_only or any(c in str(mode) for c in "wax+"):
                shim._tick("open")
                if shim.torn_site is not None:
                    site, shim.torn_site = shim.torn_site, None
                    return _TornFile(shim._open(*args, **kwargs), shim, site)
            return shim._open(*args, **kwargs)

        def makedirs_(*args: Any, **kwargs: Any) -> Any:
            if shim.exc != "TORN":
                shim._tick("makedirs")
            return shim._makedirs(*args, **kwargs)

        builtins.open = open_  # type: ignore
        os.makedirs = makedirs_  # type: ignore

    def remove(self) -> None:
        builtins.open = self._open  # type: ignore
        os.makedirs = self._makedirs  # type: ignore


def stack_depth() -> int:
    f = sys._getframe(0)  # pylint: disable=protected-access
    n = 0
    while f is not None:
        n += 1
        f = f.f_back  # type: ignore
    return n
