"""Sensitivity self-test (DESIGN §2.9): deliberate breakages of tealer, each applied to a scratch
copy of <TEALER_SRC>/tealer (outside /repo and /verif, deleted afterwards), each of which must be
reported by the named check within a reduced quick budget.

    python -m sim.selftest sensitivity [--only m1,m9]
"""

# pylint: disable=line-too-long

import os
import shutil
import subprocess
import tempfile
import time
from typing import Callable, Dict, List, Tuple

from sim.launch import PYTHON, VERIF, tealer_src


def _sub(path: str, old: str, new: str, count: int = 1) -> None:
    s = open(path, encoding="utf-8").read()
    if old not in s:
        raise RuntimeError(f"mutant does not apply: {old[:60]!r} not in {path}")
    s = s.replace(old, new, count)
    open(path, "w", encoding="utf-8").write(s)


def m1(root: str) -> None:
    """drop the defensive copies of the module-level universal sets"""
    p = root + "/tealer/analyses/dataflow/transaction_context/int_fields.py"
    _sub(p, "        U = list(universal_set)\n", "        U = universal_set\n")
    _sub(p, "        U = list(self.UNIVERSAL_SETS[self.GROUP_SIZE_KEY])", "        U = self.UNIVERSAL_SETS[self.GROUP_SIZE_KEY]")
    _sub(p, "        U = list(self.UNIVERSAL_SETS[self.GROUP_INDEX_KEY])", "        U = self.UNIVERSAL_SETS[self.GROUP_INDEX_KEY]")


def m2(root: str) -> None:
    """a detector helper consumes a context list while iterating it"""
    p = root + "/tealer/detectors/utils.py"
    _sub(
        p,
        "    for i in function.transaction_context(block).group_indices:\n        if not checks_field(function.transaction_context(block).gtxn_context(i)):\n            return False\n",
        "    indices = function.transaction_context(block).group_indices\n    while indices:\n        i = indices.pop()\n        if not checks_field(function.transaction_context(block).gtxn_context(i)):\n            return False\n",
    )


def m3(root: str) -> None:
    """a detector caches a per-block answer keyed by block id instead of block identity"""
    p = root + "/tealer/detectors/groupsize.py"
    _sub(
        p,
        "        def satisfies_report_condition(path: List[\"BasicBlock\"]) -> bool:\n\n            for block in path:\n                if self._accessed_using_absolute_index(block):\n                    return True\n            return False\n",
        "        def satisfies_report_condition(path: List[\"BasicBlock\"]) -> bool:\n\n            for block in path:\n                if block.idx not in _ABS_INDEX_CACHE:\n                    _ABS_INDEX_CACHE[block.idx] = self._accessed_using_absolute_index(block)\n                if _ABS_INDEX_CACHE[block.idx]:\n                    return True\n            return False\n",
    )
    _sub(p, "class MissingGroupSize(", "_ABS_INDEX_CACHE: dict = {}\n\n\nclass MissingGroupSize(")


def _set_order_back(root: str) -> None:
    p = root + "/tealer/teal/subroutine.py"
    _sub(
        p,
        "        return list(\n            dict.fromkeys(bi.called_subroutine for bi in self._blocks if bi.is_callsub_block)\n        )",
        "        return list(set(bi.called_subroutine for bi in self._blocks if bi.is_callsub_block))",
    )


def m15(root: str) -> None:
    """called_subroutines goes back to list(set(objects)) (the defect fixed in /repo returns)"""
    _set_order_back(root)


def m5(root: str) -> None:
    """set order back in called_subroutines plus an iteration cap in the forward solver: whether the fixpoint is reached depends on the worklist order"""
    _set_order_back(root)
    p = root + "/tealer/analyses/dataflow/transaction_context/generic.py"
    _sub(
        p,
        "        while worklist:\n            b = worklist[0]\n            worklist = worklist[1:]\n            updated = self._merge_information_forward(analysis_keys, b, global_reachout)\n",
        "        budget = len(self._function.blocks) + 2\n        while worklist and budget > 0:\n            budget -= 1\n            b = worklist[0]\n            worklist = worklist[1:]\n            updated = self._merge_information_forward(analysis_keys, b, global_reachout)\n",
    )


def m6(root: str) -> None:
    """JSON paths de-duplicated through a set of strings: order follows the hash seed"""
    p = root + "/tealer/utils/output.py"
    _sub(
        p,
        "        paths = []\n        for path in self.paths:\n            short = \" -> \".join(map(str, [bb.idx for bb in path]))\n",
        "        paths = []\n        unique = {\" -> \".join(map(str, [bb.idx for bb in p])): p for p in self.paths}\n        for short_key in set(unique):\n            path = unique[short_key]\n            short = \" -> \".join(map(str, [bb.idx for bb in path]))\n",
    )


def m7(root: str) -> None:
    """copy_main_cfg hands out the contract's own main blocks"""
    p = root + "/tealer/teal/parse_functions.py"
    _sub(
        p,
        "    for bb in all_bbs:\n        bb.teal = teal\n        bb.tealer_comments.insert(0, f\"block_id = {bb.idx}; cost = {bb.cost}\")\n\n    return all_bbs\n",
        "    for bb in all_bbs:\n        bb.teal = teal\n        bb.tealer_comments.insert(0, f\"block_id = {bb.idx}; cost = {bb.cost}\")\n\n    return sorted(original_blocks, key=lambda bi: bi.entry_instr.line)\n",
    )


def m8(root: str) -> None:
    """contexts of subroutine blocks are stored on the shared block instead of the Function"""
    p = root + "/tealer/teal/functions.py"
    _sub(
        p,
        "        self._transaction_contexts: Dict[\"BasicBlock\", \"BlockTransactionContext\"] = {\n            block: BlockTransactionContext() for block in self._blocks\n        }\n",
        "        self._transaction_contexts: Dict[\"BasicBlock\", \"BlockTransactionContext\"] = {}\n        for block in self._blocks:\n            if block in main.blocks:\n                self._transaction_contexts[block] = BlockTransactionContext()\n            else:\n                if not hasattr(block, \"_shared_ctx\"):\n                    setattr(block, \"_shared_ctx\", BlockTransactionContext())\n                self._transaction_contexts[block] = getattr(block, \"_shared_ctx\")\n",
    )


def m9(root: str) -> None:
    """a re-entrancy guard set at analysis start and reset at the end without try/finally"""
    p = root + "/tealer/teal/parse_functions.py"
    _sub(
        p,
        "def _apply_transaction_context_analysis(function: \"Function\") -> None:\n    logger = logging.getLogger(\"Tealer\")\n",
        "_ANALYSIS_IN_PROGRESS = False\n\n\ndef _apply_transaction_context_analysis(function: \"Function\") -> None:\n    global _ANALYSIS_IN_PROGRESS  # pylint: disable=global-statement\n    if _ANALYSIS_IN_PROGRESS:\n        return\n    _ANALYSIS_IN_PROGRESS = True\n    logger = logging.getLogger(\"Tealer\")\n",
    )
    _sub(
        p,
        "    compute_equations.cache_clear()  # compute_equations is not used after transaction_context_analysis.\n",
        "    compute_equations.cache_clear()  # compute_equations is not used after transaction_context_analysis.\n    _ANALYSIS_IN_PROGRESS = False\n",
    )


def m10(root: str) -> None:
    """the inverted success flag (the defect fixed in /repo) comes back"""
    _sub(root + "/tealer/__main__.py", '"success": error is None,', '"success": error is not None,')


def m11(root: str) -> None:
    """the fix for cut-away predecessors is lost"""
    p = root + "/tealer/teal/parse_functions.py"
    _sub(p, "            if bi_prev not in function_main_blocks:\n                bi.prev.remove(bi_prev)\n", "            if bi_prev not in function_main_blocks:\n                pass\n")


def m12(root: str) -> None:
    """main() catches the error but forgets to record it"""
    _sub(root + "/tealer/__main__.py", "    except TealerException as e:\n        error = str(e)\n", "    except TealerException as e:\n        _ = str(e)\n")


def m13(root: str) -> None:
    """off-path successor of a dispatch block keeps its edge when it is the jump target (position 1)"""
    p = root + "/tealer/teal/parse_functions.py"
    _sub(p, "            if bi_next != valid_next:\n", "            if bi_next != valid_next and j == 0:\n")


def m14(root: str) -> None:
    """reported paths de-duplicated through a set of block tuples: order follows object addresses (no hook there)"""
    p = root + "/tealer/detectors/utils.py"
    _sub(
        p,
        "    search_paths(entry_block, [], paths_without_check, [(None, function.main)], [[]])\n\n    return paths_without_check\n",
        "    search_paths(entry_block, [], paths_without_check, [(None, function.main)], [[]])\n\n    return [list(p) for p in set(tuple(p) for p in paths_without_check)]\n",
    )


MUTANTS: Dict[str, Tuple[Callable[[str], None], str, Dict[str, str]]] = {
    "m1": (m1, "C14", {"SIM_N_FREE": "96", "SIM_N_FAULT": "0"}),
    "m2": (m2, "C14", {"SIM_N_FREE": "96", "SIM_N_FAULT": "0"}),
    "m3": (m3, "C14", {"SIM_N_FREE": "128", "SIM_N_FAULT": "0"}),
    "m5": (m5, "C14", {"SIM_N_FREE": "128", "SIM_N_FAULT": "0"}),
    "m6": (m6, "C14", {"SIM_N_FREE": "96", "SIM_N_FAULT": "0"}),
    "m7": (m7, "C12", {"SIM_N_FREE": "64", "SIM_N_FAULT": "0"}),
    "m8": (m8, "C12", {"SIM_N_FREE": "96", "SIM_N_FAULT": "0"}),
    "m9": (m9, "C14", {"SIM_N_FREE": "0", "SIM_N_FAULT": "128"}),
    "m10": (m10, "C18", {}),
    "m11": (m11, "C12", {"SIM_N_FREE": "48", "SIM_N_FAULT": "0"}),
    "m12": (m12, "C18", {}),
    "m13": (m13, "C12", {"SIM_N_FREE": "64", "SIM_N_FAULT": "0"}),
    "m14": (m14, "C14", {"SIM_N_FREE": "128", "SIM_N_FAULT": "0"}),
    "m15": (m15, "C14", {"SIM_N_FREE": "160", "SIM_N_FAULT": "0"}),
}


def run_one(name: str) -> Tuple[bool, str, float]:
    fn, prop, env_extra = MUTANTS[name]
    base = tempfile.mkdtemp(prefix="tsim-mut-")
    t0 = time.time()
    try:
        shutil.copytree(os.path.join(tealer_src(), "tealer"), os.path.join(base, "tealer"), ignore=shutil.ignore_patterns("__pycache__"))
        fn(base)
        # the mutant must still import
        p = subprocess.run([PYTHON, "-c", "import logging; logging.disable(50); import tealer.__main__"], env={**os.environ, "PYTHONPATH": base}, capture_output=True, text=True, check=False)
        if p.returncode != 0:
            return False, "mutant does not import: " + p.stderr[-300:], time.time() - t0
        env = dict(os.environ)
        env.update(env_extra)
        env["TEALER_SRC"] = base
        env["SIM_REPLAY_DIR"] = os.path.join(base, "replays")
        env["SIM_EVIDENCE_DIR"] = os.path.join(base, "evidence")
        p = subprocess.run([PYTHON, "-m", "sim.check", prop, "--tier", "quick"], env=env, cwd=VERIF, capture_output=True, text=True, check=False)
        lines = [l for l in p.stdout.splitlines() if l.startswith("VIOLATION")]
        detail = [l for l in p.stdout.splitlines() if l.strip().startswith("kind=")]
        ok = p.returncode == 1 and bool(lines)
        return ok, f"exit={p.returncode} {lines[:1]} {detail[:1]}" + ("" if ok else " TAIL: " + p.stdout[-400:] + p.stderr[-400:]), time.time() - t0
    finally:
        shutil.rmtree(base, ignore_errors=True)


def run_all(only: str = "") -> int:
    names = [n for n in MUTANTS if not only or n in only.split(",")]
    bad = 0
    for n in names:
        ok, msg, dt = run_one(n)
        doc = (MUTANTS[n][0].__doc__ or "").strip()
        print(f"[sensitivity] {n} ({MUTANTS[n][1]}; {doc}): {'DETECTED' if ok else 'MISSED'} in {dt:.0f}s  {msg}", flush=True)
        if not ok:
            bad += 1
    print(f"[sensitivity] {len(names) - bad}/{len(names)} detected", flush=True)
    return 0 if bad == 0 else 2
