"""Reference model (DESIGN §2.5): the same operation executed alone in a pristine interpreter
(PYTHONHASHSEED=0, S1 canonical, no noise, no faults).  References are keyed by the operation's
semantic content, never by history, cached for the run and computed in parallel.

Each `single` reference is computed a second time under another hash seed with S1 reversed; a
disagreement between the two is itself reported (replay = that one-operation session).
"""

import hashlib
import json
from typing import Any, Dict, List, Optional, Tuple

from sim.launch import Runner

ALT_HASHSEED = 3141592653


def ref_key(op: Dict[str, Any], handle_contract: Dict[str, str]) -> Optional[Tuple]:
    kind = op["op"]
    if kind == "single":
        return ("single", op["c"])
    if kind == "rerun":
        c = handle_contract.get(op["h"])
        return ("single", c) if c else None
    if kind == "parse":
        return ("parse", op["c"])
    if kind == "build":
        c = handle_contract.get(op["h"])
        return ("build", c, tuple(op["path"])) if c else None
    if kind == "cli":
        return ("cli", op["c"], tuple(op["argv"]), json.dumps([op.get("files", []), op.get("contracts", []), op.get("fname")], sort_keys=True))
    if kind == "group":
        # one reference per detector: the canonical config analysed by that detector alone
        return ("group", op["canon"], op["dets"][0] if op.get("dets") else "")
    return None


def groupx_id(op: Dict[str, Any]) -> str:
    return hashlib.sha256(op["yaml"].encode()).hexdigest()[:24]


def handle_map(ops: List[Dict[str, Any]]) -> Dict[str, str]:
    """handle -> contract id, from the operation list alone (known before the session runs)."""
    m: Dict[str, str] = {}
    for op in ops:
        if op["op"] in ("single", "parse") and op.get("h"):
            m[op["h"]] = op["c"]
    return m


def _pct(key: Tuple) -> int:
    return int(hashlib.sha256(repr(key).encode()).hexdigest()[:8], 16) % 100


class RefStore:
    def __init__(self, runner: Runner, detectors: List[str]) -> None:
        self.runner = runner
        self.detectors = detectors
        self.refs: Dict[Tuple, Dict[str, Any]] = {}
        self.alt: Dict[Tuple, Dict[str, Any]] = {}
        self.pending: Dict[Tuple, Dict[str, Any]] = {}
        self.sessions = 0
        self.group_ops: Dict[str, Dict[str, Any]] = {}
        self.groupx_ops: Dict[str, Dict[str, Any]] = {}

    # ------------------------------------------------------------------ spec of a reference
    def spec_for(self, key: Tuple, full: bool = False) -> Dict[str, Any]:
        kind = key[0]
        if kind == "single":
            ops = [{"op": "single", "c": key[1], "dets": list(self.detectors), "runs": list(self.detectors), "isolate": True}]
            tgt = 0
        elif kind == "count":
            ops = [
                {"op": "single", "c": key[1], "dets": list(self.detectors), "runs": list(self.detectors), "trace": "count"}
            ]
            tgt = 0
        elif kind == "parse":
            ops = [{"op": "parse", "c": key[1], "adj": True}]
            tgt = 0
        elif kind == "build":
            ops = [
                {"op": "parse", "c": key[1], "h": "T"},
                {"op": "build", "h": "T", "path": list(key[2])},
            ]
            tgt = 1
        elif kind == "cli":
            files, contracts, fname = json.loads(key[3])
            ops = [{"op": "cli", "c": key[1], "argv": list(key[2]), "files": files, "contracts": contracts, "envelope": True}]
            if fname:
                ops[0]["fname"] = fname
            tgt = 0
        elif kind == "group":
            g = dict(self.group_ops[key[1]])
            g.pop("h", None)
            g.pop("fault", None)
            g["yaml"] = g["canon_yaml"]
            g["s1"] = "id"
            g["dets"] = [key[2]] if key[2] else []
            ops = [g]
            tgt = 0
        elif kind == "groupx":
            # exactly this config text (the order of its functions and operations included)
            g = dict(self.groupx_ops[key[1]])
            g.pop("h", None)
            g.pop("fault", None)
            g.pop("printers", None)
            g["s1"] = "id"
            g["dets"] = [key[2]] if key[2] else []
            ops = [g]
            tgt = 0
        else:
            raise ValueError(key)
        spec: Dict[str, Any] = {"ops": ops, "s1": "id", "immut": False}
        if full:
            spec["full"] = [tgt]
        spec["_target"] = tgt
        return spec

    def need(self, key: Optional[Tuple]) -> None:
        if key is not None and key not in self.refs and key not in self.pending:
            self.pending[key] = self.spec_for(key)

    def need_ops(self, ops: List[Dict[str, Any]]) -> None:
        hm = handle_map(ops)
        for op in ops:
            if op.get("trace") == "count" and op["op"] == "single":
                self.need(("count", op["c"]))
            if op["op"] == "group":
                self.group_ops[op["canon"]] = op
                self.groupx_ops[groupx_id(op)] = op
                for d in op.get("dets", []):
                    self.need(("group", op["canon"], d))
                    self.need(("groupx", groupx_id(op), d))
            self.need(ref_key(op, hm))

    # ------------------------------------------------------------------ compute
    def compute(self, timeout: float = 600.0, alt_pct: int = 100) -> List[Tuple[Tuple, str]]:
        """Runs every pending reference.  Returns [(key, reason)] for references that could not
        be obtained (timeout / interpreter died): the caller treats them as harness errors."""
        keys = sorted(self.pending, key=repr)
        jobs = []
        for k in keys:
            jobs.append(((k, "ref"), self.pending[k], 0))
            if k[0] in ("single", "build") and _pct(k) < alt_pct:
                s = dict(self.pending[k])
                s["s1"] = "rev"
                jobs.append(((k, "alt"), s, ALT_HASHSEED))
        problems: List[Tuple[Tuple, str]] = []
        for (k, which), res in self.runner.run_many(jobs, timeout=timeout):
            self.sessions += 1
            tgt = self.pending[k]["_target"]
            evs = res.get("events", [])
            if "harness_error" in res or len(evs) <= tgt:
                why = res.get("harness_error") or ("timeout" if res.get("timed_out") else res.get("died", "no event"))
                problems.append((k, f"{which}: {why}"))
                ev = {"outcome": "unavailable", "why": why, "wall": res.get("wall")}
            else:
                ev = evs[tgt]
                ev["wall"] = res.get("wall")
            (self.refs if which == "ref" else self.alt)[k] = ev
        self.pending = {}
        return problems

    def get(self, key: Tuple) -> Dict[str, Any]:
        return self.refs[key]
