"""Fork server: one pristine interpreter per PYTHONHASHSEED that has imported tealer and the
harness and analysed nothing; every session is a forked child of it.

Why: in this sandbox process start-up (exec, dynamic linking, imports) does not scale across
cores (measured: 64 interpreter starts take 2 s of wall whatever the parallelism), while a forked
child of a warm interpreter is ready in ~20 ms.

Determinism: between two forks the parent executes only os.readv into a preallocated buffer and
os.fork() (one int allocated and freed), SIGCHLD is ignored so no reaping code runs, so every child
starts from the identical heap; with ASLR off (the zygote is started under `setarch -R` with a
fixed environment) object addresses in a child are a function of the code and the session spec.

Protocol: the parent reads 9 bytes "%08d\\n" (session number) on stdin, forks; the child runs
<SIM_BASE>/s<number>/spec.json and reports on the shared stdout with short (atomic) lines:
"S <n> <pid>", then "D <n>" when its event log <SIM_BASE>/s<number>/out.jsonl is complete.
"""

import gc
import logging
import os
import signal
import sys

logging.disable(logging.CRITICAL)

from sim import session  # noqa: E402


def main() -> None:
    base = os.environ["SIM_BASE"]
    session.preload()
    # Objects that exist now live as long as the interpreter; keeping the collector from
    # re-traversing them (and from dirtying their pages in every child) changes no behaviour and
    # makes an analysis ~35% faster.
    gc.collect()
    gc.freeze()
    signal.signal(signal.SIGCHLD, signal.SIG_IGN)
    buf = bytearray(9)
    bufs = [buf]
    os.write(1, b"R 0 0\n")
    while True:
        n = os.readv(0, bufs)
        if n < 9:
            os._exit(0)
        if os.fork() == 0:  # no variable: the parent must not hold the pid int across forks
            break
    # ---- child: one session
    # the session number is never turned into an int: ints above 256 are heap objects, and a
    # session must not start from a different heap because of the number it was given
    tag = bytes(buf[:8])
    os.close(0)
    signal.signal(signal.SIGCHLD, signal.SIG_DFL)
    scratch = os.path.join(base, "s" + tag.decode())
    os.write(1, b"S " + tag + b" " + str(os.getpid()).encode() + b"\n")
    try:
        session.run_session(scratch)
    finally:
        os.write(1, b"D " + tag + b"\n")
        sys.stdout.flush()
        os._exit(0)


if __name__ == "__main__":
    main()
