"""Deterministic session simulator for crytic/tealer (see /verif/DESIGN.md)."""
