"""Self-tests of the machinery (DESIGN §2.9).

  python -m sim.selftest determinism [--seeds N] [--sessions K]
      every generated session is executed twice, by two independent runners (different scratch
      trees, different worker counts, different zygotes); the event logs - operations, outcomes,
      observation digests, S1 orders applied, fault sites fired, heap-layout probe - must be
      byte-identical.  The generators are additionally run in fresh harness interpreters under
      two PYTHONHASHSEED values and must emit identical specs.
  python -m sim.selftest sensitivity
      deliberate breakages of tealer (scratch copies outside /repo and /verif, deleted afterwards)
      must each be reported by the named check; see sim/mutants.py.
"""

# pylint: disable=too-many-locals

import argparse
import hashlib
import json
import os
import subprocess
import sys
import time
from typing import Any, Dict, List

from sim import gen
from sim.check import Check, log
from sim.launch import PYTHON, VERIF, Runner


def _strip(res: Dict[str, Any]) -> str:
    evs = res.get("events", [])
    return json.dumps({"events": evs, "done": res.get("done"), "timed_out": res.get("timed_out")}, sort_keys=True)


def gen_specs(chk: Check, seed: int, k: int) -> List[Dict[str, Any]]:
    specs = []
    for i in range(k):
        specs.append(gen.gen_c14_session(seed, i, chk.ctx, False, 12))
        specs.append(gen.gen_c14_session(seed, i, chk.ctx, True, 12))
        specs.append(gen.gen_c12_session(seed, i, chk.ctx, i % 2 == 1, 12))
    return specs


def dump_specs(seed: int, k: int) -> int:
    chk = Check("C14", "quick", seed, 4)
    try:
        chk.reference_phase()
        specs = gen_specs(chk, seed, k)
        print("SPECS", hashlib.sha256(json.dumps(specs, sort_keys=True).encode()).hexdigest())
    finally:
        chk.runner.close()
    return 0


def determinism(nseeds: int, k: int) -> int:
    t0 = time.time()
    bad = 0
    total = 0
    # 1. generation is independent of the harness interpreter's hash seed
    hashes = []
    for hs in ("1", "987654321"):
        env = dict(os.environ)
        env["PYTHONHASHSEED"] = hs
        p = subprocess.run(
            [PYTHON, "-m", "sim.selftest", "dump-specs", "--seeds", "1", "--sessions", str(k)],
            env=env, capture_output=True, text=True, cwd=VERIF, check=False,
        )
        line = [l for l in p.stdout.splitlines() if l.startswith("SPECS")]
        if not line:
            log("dump-specs failed:", p.stdout[-500:], p.stderr[-1500:])
            return 2
        hashes.append(line[0])
    if hashes[0] != hashes[1]:
        log("NONDETERMINISM: generators emit different specs under different harness PYTHONHASHSEED")
        bad += 1
    log(f"[determinism] generator specs identical under two harness hash seeds: {hashes[0] == hashes[1]}")
    # 2. every session twice, independent runners
    chk = Check("C14", "quick", 1, 4)
    r2 = Runner(workers=8)
    try:
        chk.reference_phase()
        for seed in range(1, nseeds + 1):
            specs = gen_specs(chk, seed, k)
            jobs = [(i, {"ops": s["ops"]}, s["hashseed"]) for i, s in enumerate(specs)]
            a = dict(chk.runner.run_many(jobs, timeout=300))
            b = dict(r2.run_many(list(reversed(jobs)), timeout=300))
            for i, s in enumerate(specs):
                total += 1
                if _strip(a[i]) != _strip(b[i]):
                    bad += 1
                    ea, eb = a[i].get("events", []), b[i].get("events", [])
                    for j, (x, y) in enumerate(zip(ea, eb)):
                        if x != y:
                            keys = [kk for kk in sorted(set(x) | set(y)) if x.get(kk) != y.get(kk)]
                            log(f"NONDETERMINISM seed={seed} session={i} op={j} ({s['ops'][j]['op']}) differing fields={keys}")
                            break
                    else:
                        log(f"NONDETERMINISM seed={seed} session={i}: different number of events {len(ea)} vs {len(eb)}")
            log(f"[determinism] seed={seed} sessions={len(specs)} cumulative_bad={bad} t={time.time()-t0:.0f}s")
    finally:
        chk.runner.close()
        r2.close()
    log(f"[determinism] sessions compared={total} divergent={bad}")
    return 0 if bad == 0 else 2


def forkmodel(k: int) -> int:
    """Cross-check of the process model: the same sessions executed by forked children of a zygote
    and by exec'd brand-new interpreters (SIM_MODE=exec) must record the same events.  The heap
    probe is excluded: an exec'd interpreter that imports tealer inside the session has another
    allocation history than a child of a warm zygote, and nothing else may depend on that."""
    chk = Check("C14", "quick", 1, 4)
    os.environ["SIM_MODE"] = "exec"
    r2 = Runner(workers=4)
    os.environ.pop("SIM_MODE")
    bad = 0
    try:
        chk.reference_phase()
        specs = gen_specs(chk, 7, k)
        jobs = [(i, {"ops": s["ops"]}, s["hashseed"]) for i, s in enumerate(specs)]
        a = dict(chk.runner.run_many(jobs, timeout=300))
        b = dict(r2.run_many(jobs, timeout=600))

        def strip(res: Dict[str, Any]) -> str:
            evs = [{kk: v for kk, v in e.items() if kk != "addr"} for e in res.get("events", [])]
            return json.dumps(evs, sort_keys=True)

        for i, s in enumerate(specs):
            if strip(a[i]) != strip(b[i]):
                bad += 1
                for j, (x, y) in enumerate(zip(a[i].get("events", []), b[i].get("events", []))):
                    keys = [kk for kk in sorted(set(x) | set(y)) if x.get(kk) != y.get(kk) and kk != "addr"]
                    if keys:
                        log(f"FORK-vs-EXEC session={i} op={j} ({s['ops'][j]['op']}) differing fields={keys}")
                        break
        log(f"[forkmodel] sessions compared={len(specs)} divergent={bad}")
    finally:
        chk.runner.close()
        r2.close()
    return 0 if bad == 0 else 2


def main() -> int:
    ap = argparse.ArgumentParser()
    ap.add_argument("what", choices=["determinism", "dump-specs", "sensitivity", "forkmodel"])
    ap.add_argument("--seeds", type=int, default=3)
    ap.add_argument("--sessions", type=int, default=16)
    ap.add_argument("--only", default="")
    args = ap.parse_args()
    if args.what == "dump-specs":
        return dump_specs(args.seeds, args.sessions)
    if args.what == "determinism":
        return determinism(args.seeds, args.sessions)
    if args.what == "forkmodel":
        return forkmodel(args.sessions)
    from sim import mutants  # pylint: disable=import-outside-toplevel

    return mutants.run_all(args.only)


if __name__ == "__main__":
    from sim import selftest as _st

    sys.exit(_st.main())
