"""Synthetic corpus members generated from their id (no file).

`deep<D>` — a contract whose single execution path has about D blocks while its graph has about
fifty: nine nested subroutines, each calling the next one twice (the path through level i is
3 + 2 x the path through level i+1), called from main code as the greedy decomposition of D into
those path lengths, the remainder made up by a chain of conditional blocks.  The detectors' path
search recurses once per block of the path, so for some D the contract needs just more stack than
the interpreter's recursion limit allows.  The reference phase calibrates D per run (smallest value
whose path search raises RecursionError in a pristine interpreter); `deep<D+5>` and `deep<D-6>`
then sit a few frames on either side of the limit and tell whether an earlier operation left the
limit changed — at the cost of analysing fifty blocks, not a thousand."""

from typing import List, Optional

LEVELS = 9


def is_synthetic(cid: str) -> bool:
    return cid.startswith("deep") and cid[4:].isdigit()


def _level_paths() -> List[int]:
    length = [0] * LEVELS
    length[LEVELS - 1] = 1
    for i in range(LEVELS - 2, -1, -1):
        length[i] = 3 + 2 * length[i + 1]
    return length


def source(cid: str) -> Optional[str]:
    if not is_synthetic(cid):
        return None
    rest = int(cid[4:])
    length = _level_paths()
    calls: List[int] = []
    for i in range(1, LEVELS - 2):  # 509, 253, ... 13 blocks (+1 for the calling block)
        while rest >= length[i] + 1:
            calls.append(i)
            rest -= length[i] + 1
    lines = ["#pragma version 6", "txn RekeyTo", "global ZeroAddress", "==", "assert"]
    for i in range(rest):
        lines += ["int 1", "bnz t%d" % i, "err", "t%d:" % i]
    for i in calls:
        lines.append("callsub s%d" % i)
    lines += ["int 1", "return"]
    for i in range(LEVELS - 1):
        lines += ["s%d:" % i, "callsub s%d" % (i + 1), "callsub s%d" % (i + 1), "retsub"]
    lines += ["s%d:" % (LEVELS - 1), "int 1", "pop", "retsub"]
    return "\n".join(lines) + "\n"
