"""Synthetic corpus members generated from their id (no file).

`deepMMM` — a contract whose single execution path is long while its graph is small: eight nested
subroutines, each calling the next one twice (path length doubles per level), called from main
code after a chain of MMM conditional blocks.  The detectors' path search recurses once per block
of the path, so for some MMM the contract needs just more stack than the interpreter's recursion
limit allows.  The reference phase calibrates MMM per run (smallest value whose path search raises
RecursionError in a pristine interpreter); `deep<M+5>` and `deep<M-6>` then sit a few frames on
either side of the limit and tell whether an earlier operation left the limit changed — at the cost
of analysing a hundred blocks, not a thousand."""

from typing import Optional

LEVELS = 9


def is_synthetic(cid: str) -> bool:
    return cid.startswith("deep") and cid[4:].isdigit()


def source(cid: str) -> Optional[str]:
    if not is_synthetic(cid):
        return None
    m = int(cid[4:])
    lines = ["#pragma version 6", "txn RekeyTo", "global ZeroAddress", "==", "assert"]
    for i in range(m):
        lines += ["int 1", "bnz t%d" % i, "err", "t%d:" % i]
    lines += ["callsub s1", "callsub s2", "callsub s3", "callsub s5", "callsub s5", "int 1", "return"]
    for i in range(LEVELS - 1):
        lines += ["s%d:" % i, "callsub s%d" % (i + 1), "callsub s%d" % (i + 1), "retsub"]
    lines += ["s%d:" % (LEVELS - 1), "int 1", "pop", "retsub"]
    return "\n".join(lines) + "\n"
