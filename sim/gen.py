"""Seeded generation of session specs (DESIGN §2.2, §2.4, §2.7).

Everything is drawn from random.Random instances derived from VERIF_SEED; generation never looks
at outcomes of the sessions it generates (only at reference-phase facts: adjacency of the main
graph, detector names, call-site tables), so the operation list of a session is known before it
runs.  Swarm style: every session draws its own contract pool, operation mix, S1 policy, sizes and
enabled fault kinds.
"""

import json
import random
from typing import Any, Dict, List, Optional, Tuple

HOT_FUNCS = (
    "_merge_information_forward",
    "_merge_information_backward",
    "_store_results",
    "copy_main_cfg",
    "construct_stack_ast",
    "compute_equations",
    "_apply_transaction_context_analysis",
    "run_analysis",
    "search_paths",
    "_get_asserted_int_values",
    "_block_level_constraints",
    "_path_level_constraints",
    "_update_gtxn_constraints",
    "forward_analyis",
    "backward_analysis",
    "construct_function",
    "detect",
    "_postorder",
    "_calculate_reachin",
)

JSON_ARGV = ["--json", "-", "detect", "--contracts", "{C}"]


class GenCtx:
    """Reference-phase facts the generators may use."""

    def __init__(self) -> None:
        self.contracts: List[str] = []  # usable in random sessions (not too slow)
        self.all_contracts: List[str] = []
        self.bad_inputs: List[str] = []  # contracts whose pristine `single` does not end ok
        self.small: List[str] = []  # cheap enough for traced / faulted operations
        self.info: Dict[str, Dict[str, Any]] = {}
        self.detectors: List[str] = []
        self.printers: List[str] = []
        self.sites: Dict[str, Dict[str, int]] = {}
        self.paths: Dict[str, List[List[str]]] = {}
        self.with_subs: List[str] = []
        self.group_cfgs: List[Dict[str, Any]] = []
        self.hashseeds: List[int] = [0]
        self.twins: Dict[str, List[str]] = {}
        self.deep: List[str] = []
        self.depth_probes: List[str] = []  # calibrated pair: fails alone / completes alone


def enumerate_paths(adj: Dict[str, List[int]], entry: int, max_len: int, cap: int) -> List[List[str]]:
    """Every simple root-to-block prefix of the main graph, DFS in successor order, capped."""
    out: List[List[str]] = []
    stack: List[List[int]] = [[entry]]
    while stack and len(out) < cap:
        path = stack.pop(0)
        out.append(["B%d" % b for b in path])
        if len(path) >= max_len:
            continue
        seen = set(path)
        nxt = []
        for n in adj.get(str(path[-1]), []):
            if n not in seen and n not in nxt:
                nxt.append(n)
        stack.extend(path + [n] for n in nxt)  # breadth-first: short paths first
    return out


# ------------------------------------------------------------------------------- pieces


def _det_subset(rng: random.Random, dets: List[str]) -> List[str]:
    r = rng.random()
    if r < 0.3:
        sub = list(dets)
    else:
        k = rng.randrange(1, len(dets) + 1)
        sub = rng.sample(dets, k)
    rng.shuffle(sub)
    return sub


def _runs(rng: random.Random, dets: List[str]) -> Optional[List[str]]:
    if not dets:
        return []
    r = rng.random()
    if r < 0.35:
        return None  # run_detectors() once
    n = rng.randrange(1, len(dets) + 4)
    return [rng.choice(dets) for _ in range(n)]


def _s1(rng: random.Random, policy: str) -> Any:
    if policy == "id":
        return "id"
    if policy == "rev":
        return "rev"
    if policy == "rand":
        return rng.randrange(1, 2**31)
    return rng.choice(["id", "rev", rng.randrange(1, 2**31), rng.randrange(1, 2**31)])


def make_fault(rng: random.Random, ctx: GenCtx, cid: str, kinds: List[str], opkind: str) -> Optional[Dict[str, Any]]:
    kind = rng.choice(kinds)
    if kind in ("exc_call", "exc_line"):
        sites = ctx.sites.get(cid) or (ctx.sites[sorted(ctx.sites)[0]] if ctx.sites else None)
        if not sites:
            return None
        names = sorted(sites)
        hot = [s for s in names if s.split(":")[1] in HOT_FUNCS]
        site = rng.choice(hot) if hot and rng.random() < 0.6 else rng.choice(names)
        count = sites[site]
        r = rng.random()
        if r < 0.35:
            k = 1
        elif r < 0.5:
            k = count
        elif r < 0.65:
            k = max(1, count // 2)
        else:
            k = rng.randrange(1, count + 1)
        f, fn = site.split(":")
        fault = {
            "kind": kind,
            "file": f,
            "func": fn,
            "k": k,
            "exc": rng.choice(["KeyboardInterrupt", "MemoryError", "RuntimeError"]),
        }
        if kind == "exc_line":
            fault["n"] = rng.randrange(1, 12)
        return fault
    if kind == "recursion":
        return {"kind": "recursion", "n": rng.choice([12, 16, 20, 25, 30, 40, 60])}
    if kind == "io":
        if opkind not in ("cli", "printer", "regex", "group"):
            return None
        exc = rng.choice(["ENOSPC", "EACCES", "TORN"])
        # TORN counts write-mode opens only: 1 or 2 reaches the report / the first DOT files
        return {"kind": "io", "k": rng.randrange(1, 3 if exc == "TORN" else 5), "exc": exc}
    return None


class SessionBuilder:
    def __init__(self, rng: random.Random, ctx: GenCtx) -> None:
        self.rng = rng
        self.ctx = ctx
        self.ops: List[Dict[str, Any]] = []
        self.nh = 0
        self.teals: List[Tuple[str, str]] = []  # (handle, contract)
        self.tealers: List[Tuple[str, str, List[str]]] = []  # (handle, contract, dets)
        self.uid = 0
        self.durable = False  # the session keeps its export directory between CLI runs

    def add(self, op: Dict[str, Any]) -> Dict[str, Any]:
        op["uid"] = self.uid
        self.uid += 1
        self.ops.append(op)
        return op

    def handle(self, prefix: str) -> str:
        self.nh += 1
        return "%s%d" % (prefix, self.nh)

    # --- operations
    def single(self, cid: str, s1: Any, keep: bool = True) -> Dict[str, Any]:
        dets = _det_subset(self.rng, self.ctx.detectors)
        op: Dict[str, Any] = {"op": "single", "c": cid, "dets": dets, "runs": _runs(self.rng, dets), "s1": s1}
        if self.rng.random() < 0.15:
            op["printers"] = self._side(self.rng)
        if op["runs"] is None and self.rng.random() < 0.3:
            op["post_filter"] = self.rng.choice(["0 -> 1", " 2$", "^0", "->", "1"])
        if keep:
            op["h"] = self.handle("X")
            self.tealers.append((op["h"], cid, list(dets)))
        return self.add(op)

    def _side(self, rng: random.Random) -> List[str]:
        names = list(self.ctx.printers) + ["regex"]
        return [rng.choice(names) for _ in range(rng.randrange(1, 3))]

    def rerun(self, s1: Any) -> Optional[Dict[str, Any]]:
        if not self.tealers:
            return None
        h, _cid, dets = self.rng.choice(self.tealers)
        extra = [d for d in _det_subset(self.rng, self.ctx.detectors) if d not in dets][:2]
        dets.extend(extra)
        op: Dict[str, Any] = {"op": "rerun", "h": h, "dets": extra, "runs": _runs(self.rng, dets), "s1": s1}
        if self.rng.random() < 0.2:
            op["printers"] = self._side(self.rng)
        if op["runs"] is None and self.rng.random() < 0.3:
            op["post_filter"] = self.rng.choice(["0 -> 1", " 2$", "^0", "->", "1"])
        return self.add(op)

    def parse(self, cid: str) -> Dict[str, Any]:
        h = self.handle("T")
        self.teals.append((h, cid))
        return self.add({"op": "parse", "c": cid, "h": h})

    def build(self, s1: Any, invalid_p: float = 0.08, th: Optional[Tuple[str, str]] = None, keep: bool = True) -> Optional[Dict[str, Any]]:
        if th is None:
            if not self.teals:
                return None
            th = self.rng.choice(self.teals)
        h, cid = th
        paths = self.ctx.paths.get(cid) or [["B0"]]
        path = list(self.rng.choice(paths))
        op: Dict[str, Any] = {"op": "build", "h": h, "path": path, "s1": s1}
        if self.rng.random() < invalid_p:
            r = self.rng.random()
            if r < 0.5:
                path.append("B9999")
            elif len(path) > 1:
                path.append(path[0])  # loop
            else:
                path.append("B9999")
            op["path"] = path
            op["invalid"] = True
        if self.rng.random() < 0.3:
            op["name"] = "fn_%d" % self.rng.randrange(1000)
        if keep:
            op["f"] = self.handle("F")
        self.add(op)
        if op.get("invalid") and self.ctx.deep and self.rng.random() < 0.4:
            # the same rejected-path build on a contract that needs all the stack there is, then its
            # analysis: whatever a failed build leaves changed about resource limits shows here
            deep = self.rng.choice(self.ctx.deep)
            hd = self.handle("T")
            self.add({"op": "parse", "c": deep, "h": hd})
            self.add({"op": "build", "h": hd, "path": ["B0", "B99999"], "s1": "id", "invalid": True})
            self.add({"op": "single", "c": deep, "dets": ["rekey-to", "can-close-account"], "runs": ["rekey-to", "can-close-account"], "s1": "id"})
            self.add({"op": "drop", "h": hd})
        return op

    def cli(self, cid: str, s1: Any) -> Dict[str, Any]:
        """One in-process `tealer ...` command line, drawn from the whole CLI vocabulary: a client
        that calls main() repeatedly meets listings, misuse and failed runs between normal ones."""
        rng = self.rng
        r = rng.random()
        files: List[Dict[str, str]] = []
        if r < 0.10:
            argv = rng.choice(
                [
                    ["detect", "--list-detectors"],
                    ["print", "--list-printers"],
                    ["--version"],
                    ["--markdown", "detectors.md"],
                    ["--wiki-detectors", "wiki.md"],
                    ["detect"],  # neither --contracts nor --group-config: CommandLineError, exit 1
                ]
            )
        elif r < 0.15:
            argv = ["print", "--contracts", "{C}", "--printers", rng.choice(self.ctx.printers)]
        elif r < 0.18:
            argv = ["regex", "regex.txt", "--contracts", "{C}"]
            files = [{"name": "regex.txt", "text": "* =>\n int 1\n return\n"}]
        else:
            argv = list(JSON_ARGV)
            text_mode = rng.random() < 0.15 and self.ctx.info.get(cid, {}).get("lines", 999) <= 60
            if text_mode:
                # text mode writes one DOT file per reported path: small contracts, one detector
                argv = ["detect", "--contracts", "{C}", "--detectors", rng.choice(self.ctx.detectors)]
            else:
                if rng.random() < (0.6 if self.durable else 0.25):
                    argv[1] = "out.json"
                if rng.random() < 0.5:
                    sub = _det_subset(rng, self.ctx.detectors)[: rng.randrange(1, 5)]
                    if rng.random() < 0.12:
                        sub.append(rng.choice(["nope", sub[0]]))  # unknown / duplicated detector name
                    argv += ["--detectors", ",".join(sub)]
                elif rng.random() < 0.2:
                    argv += rng.choice(
                        [["--exclude", rng.choice(self.ctx.detectors)], ["--exclude-stateless"], ["--exclude-stateful"]]
                    )
            if rng.random() < 0.25:
                argv += ["--filter-paths", rng.choice(["0 -> 1", " 2$", "^0 -> 2", "3 -> ", "1", "->.*->", "("])]
            if rng.random() < 0.06:
                argv = ["--debug"] + argv  # hidden flag: logger levels, debug-only code paths
        op: Dict[str, Any] = {"op": "cli", "c": cid, "argv": argv, "s1": s1}
        if files:
            op["files"] = files
        if rng.random() < (0.6 if self.durable else 0.25):
            # a scratch file name used again for another contract (edit-and-reanalyse loops); with
            # a durable export directory the later run finds the earlier run's report in its place
            op["fname"] = "contract.teal"
        self.add(op)
        if argv[:1] != ["--json"] and "--contracts" not in argv and rng.random() < 0.7:
            # a listing / version / misuse call is followed by an ordinary default run, which is what
            # would show anything the boring call left behind
            self.add({"op": "cli", "c": cid, "argv": list(JSON_ARGV), "s1": s1})
        return op

    def cli_group(self, s1: Any) -> Optional[Dict[str, Any]]:
        """`tealer detect --group-config cfg.yaml` through main() (prints and exits 1)."""
        g = make_group(self.rng, self.ctx)
        if g is None:
            return None
        argv = ["detect", "--group-config", "config.yaml", "--detectors", ",".join(g["dets"])]
        return self.add(
            {
                "op": "cli",
                "c": g["contracts"][0],
                "argv": argv,
                "files": [{"name": "config.yaml", "text": g["yaml"]}],
                "contracts": g["contracts"],
                "s1": s1,
            }
        )

    def printer(self, cid: str, s1: Any) -> Dict[str, Any]:
        return self.add({"op": "printer", "c": cid, "name": self.rng.choice(self.ctx.printers), "s1": s1})

    def regex(self, cid: str, s1: Any) -> Dict[str, Any]:
        pat = self.rng.choice(
            ["* =>\n int 1\n return\n", "* =>\n assert\n", "* =>\n retsub\n", "* =>\n global ZeroAddress\n ==\n"]
        )
        return self.add({"op": "regex", "c": cid, "pattern": pat, "s1": s1})

    def noise(self) -> Dict[str, Any]:
        return self.add({"op": "noise", "n": self.rng.choice([10, 100, 1000, 5000]), "seed": self.rng.randrange(2**31)})

    def gc(self) -> Dict[str, Any]:
        if self.rng.random() < 0.3:
            return self.gc_knob()
        return self.add({"op": "gc"})

    def gc_knob(self) -> Dict[str, Any]:
        # collector thresholds as a per-session tuning knob (DESIGN §2.4)
        return self.add({"op": "gc", "t": self.rng.choice(["off", "on", [700, 10, 10], [50, 3, 3], [200, 2, 2], [20000, 50, 50]])})

    def drop(self) -> Optional[Dict[str, Any]]:
        cands = [h for h, _ in self.teals] + [h for h, _, _ in self.tealers]
        if not cands:
            return None
        h = self.rng.choice(cands)
        self.teals = [t for t in self.teals if t[0] != h]
        self.tealers = [t for t in self.tealers if t[0] != h]
        return self.add({"op": "drop", "h": h})


def _pool(rng: random.Random, ctx: GenCtx, faulty: bool) -> List[str]:
    base = ctx.small if faulty and ctx.small else ctx.contracts
    k = rng.choice([1, 2, 2, 3, 4, 6, 10])
    pool = rng.sample(base, min(k, len(base)))
    if ctx.with_subs and rng.random() < 0.6:
        cands = [c for c in ctx.with_subs if c in base]
        if cands:
            pool.append(rng.choice(cands))
    if ctx.bad_inputs and rng.random() < (0.5 if faulty else 0.2):
        pool.append(rng.choice(ctx.bad_inputs))
    # near-twins (identical text and line numbers except for one token): whatever tealer remembers
    # from one of them under a key made of text, lines or ids is wrong for the other
    if ctx.twins and rng.random() < 0.5:
        have = [c for c in ctx.contracts if c in ctx.twins]
        if have:
            a = rng.choice(have)
            pool.append(a)
            pool.append(rng.choice(ctx.twins[a]))
    for c in list(pool):
        if c in ctx.twins and rng.random() < 0.5:
            pool.append(rng.choice(ctx.twins[c]))
    return pool


def gen_c14_session(seed: int, index: int, ctx: GenCtx, faulty: bool, max_ops: int) -> Dict[str, Any]:
    rng = random.Random("c14:%d:%d:%d" % (seed, index, int(faulty)))
    hashseed = rng.choice(ctx.hashseeds)
    b = SessionBuilder(rng, ctx)
    pool = _pool(rng, ctx, faulty)
    policy = rng.choice(["id", "rev", "rand", "mix", "mix", "rand"])
    kinds = ["single", "single", "single", "rerun", "cli", "parse", "build", "printer", "regex", "noise", "gc", "drop", "group", "cli_group"]
    enabled = [k for k in kinds if rng.random() < 0.7] or ["single"]
    if "single" not in enabled:
        enabled.append("single")
    fault_kinds = [k for k in ["exc_call", "exc_call", "exc_line", "recursion", "io"] if rng.random() < 0.7] or ["exc_call"]
    fault_p = rng.choice([0.1, 0.2, 0.3]) if faulty else 0.0
    nops = rng.randrange(3, max_ops + 1)
    keep_export_dir = rng.random() < 0.3  # the export directory outlives the runs of this session
    b.durable = keep_export_dir
    if keep_export_dir:
        # what the directory carries from one run to the next only shows when there are several
        # runs: these sessions are CLI-heavy (at first they were not, about one session per quick run
        # had two file reports in one directory, and S14-27/S14-28 were missed a second time)
        enabled = [k for k in enabled if k != "cli"] + ["cli"] * max(4, len(enabled) // 2)
    if rng.random() < 0.3:
        b.gc_knob()
    while len(b.ops) < nops:
        kind = rng.choice(enabled)
        cid = rng.choice(pool)
        s1 = _s1(rng, policy)
        op = None
        if kind == "single":
            op = b.single(cid, s1, keep=rng.random() < (0.85 if faulty else 0.6))
        elif kind == "rerun":
            op = b.rerun(s1)
        elif kind == "cli":
            op = b.cli(cid, s1)
        elif kind == "parse":
            op = b.parse(cid)
        elif kind == "build":
            if not b.teals:
                b.parse(cid)
            op = b.build(s1, keep=rng.random() < 0.7)
        elif kind == "printer":
            op = b.printer(cid, s1)
        elif kind == "regex":
            op = b.regex(cid, s1)
        elif kind == "noise":
            op = b.noise()
        elif kind == "gc":
            op = b.gc()
        elif kind == "drop":
            op = b.drop()
        elif kind == "group":
            op = add_group_op(b, rng, ctx, s1) if rng.random() < 0.4 else None
        elif kind == "cli_group":
            op = b.cli_group(s1) if rng.random() < 0.4 else None
        if op is None:
            continue
        if faulty and op["op"] in ("single", "rerun", "cli", "build", "printer", "regex", "parse", "group") and rng.random() < fault_p:
            ccid = op.get("c") or dict(b.teals).get(op.get("h", ""), "") or cid
            f = make_fault(rng, ctx, ccid, fault_kinds, op["op"])
            if f is not None:
                op["fault"] = f
                # a probe on state the faulted operation touched follows within two operations
                if op["op"] in ("single", "rerun") and op.get("h") and rng.random() < 0.7:
                    # the aborted run and the next one on the very same Tealer object (a notebook
                    # cell interrupted and re-executed): other detectors, same contexts
                    dets = _det_subset(rng, ctx.detectors)
                    b.add({"op": "rerun", "h": op["h"], "dets": dets, "runs": _runs(rng, dets), "s1": _s1(rng, policy)})
                if ctx.deep and rng.random() < 0.12:
                    # a contract that only fails for lack of stack depth tells whether a resource
                    # limit was left changed
                    b.single(rng.choice(ctx.deep), "id", keep=False)
                if rng.random() < 0.8:
                    probe = b.single(ccid if ccid in ctx.info else cid, _s1(rng, policy), keep=False)
                    if rng.random() < 0.4:
                        # bounded progress after faults: this operation runs under the call-event
                        # counter and must stay within 10x the reference's step count
                        probe["trace"] = "count"
    if keep_export_dir:
        # every operation, not only the CLI runs: an API operation between two runs must not empty
        # the directory either (it did at first, and S14-27/S14-28 were missed for it)
        for o_ in b.ops:
            o_["keep_files"] = True
    return {"ops": b.ops, "hashseed": hashseed, "index": index, "faulty": faulty, "policy": policy}


def gen_c12_session(seed: int, index: int, ctx: GenCtx, faulty: bool, max_ops: int) -> Dict[str, Any]:
    rng = random.Random("c12:%d:%d:%d" % (seed, index, int(faulty)))
    hashseed = rng.choice(ctx.hashseeds)
    b = SessionBuilder(rng, ctx)
    base = ctx.small if faulty and ctx.small else ctx.contracts
    multi = [c for c in base if len(ctx.paths.get(c, [])) > 1]
    pool = rng.sample(multi, min(rng.choice([1, 1, 2, 3]), len(multi))) if multi else rng.sample(base, 1)
    if ctx.with_subs and rng.random() < 0.7:
        cands = [c for c in ctx.with_subs if c in multi]
        if cands:
            pool.append(rng.choice(cands))
    others = rng.sample(base, min(3, len(base)))
    policy = rng.choice(["id", "rev", "rand", "mix", "rand"])
    fault_kinds = [k for k in ["exc_call", "exc_call", "exc_line", "recursion"] if rng.random() < 0.7] or ["exc_call"]
    fault_p = rng.choice([0.1, 0.2, 0.3]) if faulty else 0.0
    side = [k for k in ["single", "rerun", "printer", "noise", "gc", "cli", "reparse", "drop", "cli_group"] if rng.random() < 0.6]
    group_p = 0.08 if ctx.group_cfgs else 0.0
    for cid in pool:
        b.parse(cid)
    nops = rng.randrange(4, max_ops + 1)
    while len(b.ops) < nops:
        r = rng.random()
        s1 = _s1(rng, policy)
        op = None
        if r < 0.65 or not side:
            if not b.teals:
                b.parse(rng.choice(pool))
            op = b.build(s1, keep=rng.random() < 0.8)
        elif r < 0.65 + group_p:
            op = add_group_op(b, rng, ctx, s1)
        else:
            kind = rng.choice(side)
            cid = rng.choice(pool + others)
            if kind == "single":
                op = b.single(cid, s1, keep=rng.random() < 0.5)
            elif kind == "rerun":
                op = b.rerun(s1)
            elif kind == "printer":
                op = b.printer(cid, s1)
            elif kind == "noise":
                op = b.noise()
            elif kind == "gc":
                op = b.gc()
            elif kind == "cli":
                op = b.cli(cid, s1)
            elif kind == "reparse":
                op = b.parse(rng.choice(pool))
            elif kind == "cli_group":
                op = b.cli_group(s1)
            elif kind == "drop":
                op = b.drop()
        if op is None:
            continue
        if faulty and op["op"] in ("build", "single", "group") and rng.random() < fault_p:
            ccid = op.get("c") or dict(b.teals).get(op.get("h", ""), "") or pool[0]
            f = make_fault(rng, ctx, ccid, fault_kinds, op["op"])
            if f is not None:
                op["fault"] = f
                if rng.random() < 0.8 and b.teals:
                    th = [t for t in b.teals if t[0] == op.get("h")]
                    b.build(_s1(rng, policy), invalid_p=0.0, th=th[0] if th else None, keep=True)
    return {"ops": b.ops, "hashseed": hashseed, "index": index, "faulty": faulty, "policy": policy}


# ------------------------------------------------------------------------------- group configs


def group_yaml(contracts: List[Dict[str, Any]], groups: List[Dict[str, Any]]) -> str:
    """Plain YAML writer for the small configs used here (no yaml dependency in the harness)."""
    lines = ["name: sim", "contracts:"]
    for c in contracts:
        lines += [
            "  - name: %s" % c["name"],
            "    file_path: %s.teal" % c["cid"],
            "    type: %s" % c["type"],
            "    version: %d" % c["version"],
            "    subroutines: []",
            "    functions:",
        ]
        for f in c["functions"]:
            lines += [
                "      - name: %s" % f["name"],
                "        dispatch_path: [%s]" % ", ".join('"%s"' % p for p in f["path"]),
            ]
    lines.append("groups:")
    for g in groups:
        lines += ["  - operation: %s" % g["operation"], "    transactions:"]
        for t in g["transactions"]:
            lines += ["      - txn_id: %s" % t["txn_id"], "        txn_type: %s" % t["txn_type"]]
            if t.get("absolute_index") is not None:
                lines.append("        absolute_index: %d" % t["absolute_index"])
            for role in ("application", "logic_sig"):
                if t.get(role):
                    lines += [
                        "        %s:" % role,
                        "          contract: %s" % t[role][0],
                        "          function: %s" % t[role][1],
                    ]
    return "\n".join(lines) + "\n"


def add_group_op(b: SessionBuilder, rng: random.Random, ctx: GenCtx, s1: Any) -> Optional[Dict[str, Any]]:
    last = getattr(b, "last_group", None)
    op = None
    if last is not None and rng.random() < 0.35:
        op = twin_swapped(last, rng, ctx)
    if op is None:
        op = make_group(rng, ctx)
    if op is None:
        return None
    b.last_group = op  # type: ignore
    op["s1"] = s1
    if rng.random() < 0.45:
        # the one printer that reads the contexts, plus whatever else
        op["printers"] = ["transaction-context"] + b._side(rng)[:1]  # pylint: disable=protected-access
    if rng.random() < 0.4:
        op["h"] = b.handle("G")
    return b.add(op)


def twin_swapped(prev: Dict[str, Any], rng: random.Random, ctx: GenCtx) -> Optional[Dict[str, Any]]:
    """The previous config loaded again with one contract replaced by a near-twin of it under the
    same contract name, function names and dispatch paths (a new revision of a program deployed
    under the old name)."""
    cands = [name for name, cid in sorted(prev["cmap"].items()) if cid in ctx.twins]
    if not cands:
        return None
    name = rng.choice(cands)
    old_cid = prev["cmap"][name]
    new_cid = rng.choice(ctx.twins[old_cid])
    if ctx.paths.get(new_cid) is None:
        return None
    valid = set(tuple(p) for p in ctx.paths[new_cid])
    for key, path in prev["paths"].items():
        if key.startswith(name + "/") and tuple(path) not in valid:
            return None
    op = {k: v for k, v in prev.items() if k not in ("uid", "h", "fault", "s1", "printers")}
    op["cmap"] = dict(prev["cmap"])
    op["cmap"][name] = new_cid
    op["contracts"] = sorted(set(op["cmap"].values()))
    for field in ("yaml", "canon_yaml", "canon"):
        op[field] = prev[field].replace("file_path: %s.teal" % old_cid, "file_path: %s.teal" % new_cid)
    op["dets"] = list(prev["dets"])
    return op


def make_group(rng: random.Random, ctx: GenCtx) -> Optional[Dict[str, Any]]:
    """`group`: init_tealer_from_config on a small config whose per-contract function lists are
    permuted, thinned or duplicated under fresh names by the session PRNG.  The canonical form
    (functions sorted by path, canonical names) keys the reference for detector outputs; each
    function is additionally compared with the pristine build of (contract, path)."""
    if not ctx.group_cfgs:
        return None
    picked = rng.sample(ctx.group_cfgs, min(len(ctx.group_cfgs), rng.choice([1, 2, 2, 2, 3])))
    contracts = []
    for j, c in enumerate(picked):
        allp = ctx.paths.get(c["cid"], [["B0"]])
        k = rng.randrange(1, min(4, len(allp)) + 1)
        chosen = rng.sample(allp, k)
        if rng.random() < 0.3:
            chosen.append(list(rng.choice(chosen)))  # same path twice under another name
        fs = [{"path": p} for p in chosen]
        ctype = "LogicSig" if rng.random() < 0.3 else "ApprovalProgram"
        contracts.append({"name": "K%d" % j, "cid": c["cid"], "type": ctype, "version": c["version"], "functions": fs})

    # further operations: a function executed by a second operation, and one operation of two
    # transactions (names are the canonical ones finish() assigns: f<i> by sorted path)
    extra: List[Dict[str, Any]] = []
    role_of = lambda c: "logic_sig" if c["type"] == "LogicSig" else "application"  # noqa: E731
    if rng.random() < 0.3:
        c = rng.choice(contracts)
        fn = "f%d" % rng.randrange(len(c["functions"]))
        t = {"txn_id": "T1", "txn_type": "pay" if role_of(c) == "logic_sig" else "appl", role_of(c): (c["name"], fn)}
        extra.append({"operation": "op_again_%s_%s" % (c["name"], fn), "transactions": [t]})
    if rng.random() < 0.2:
        ts = []
        for n_ in (0, 1):
            c = rng.choice(contracts)
            fn = "f%d" % rng.randrange(len(c["functions"]))
            ts.append({"txn_id": "T%d" % (n_ + 1), "txn_type": "pay" if role_of(c) == "logic_sig" else "appl", "absolute_index": n_, role_of(c): (c["name"], fn)})
        extra.append({"operation": "op_pair", "transactions": ts})

    def finish(cs: List[Dict[str, Any]], shuffle: bool) -> Tuple[str, Dict[str, List[str]]]:
        cs2 = []
        pmap: Dict[str, List[str]] = {}
        groups = []
        for c in cs:
            fs = sorted(c["functions"], key=lambda f: f["path"])
            named = [{"name": "f%d" % i, "path": f["path"]} for i, f in enumerate(fs)]
            for f in named:
                pmap[c["name"] + "/" + f["name"]] = f["path"]
            # one single-transaction group per function, in canonical order
            for f in named:
                role = "logic_sig" if c["type"] == "LogicSig" else "application"
                t = {"txn_id": "T1", "txn_type": "pay" if role == "logic_sig" else "appl", role: (c["name"], f["name"])}
                groups.append({"operation": "op_%s_%s" % (c["name"], f["name"]), "transactions": [t]})
            if shuffle:
                rng.shuffle(named)
            cs2.append(dict(c, functions=named))
        groups.extend(json.loads(json.dumps(extra)))
        if shuffle and rng.random() < 0.5:
            cs2.reverse()
        if shuffle:
            # the order in which the operations (groups) are listed is free as well; detector
            # outputs are compared as a multiset over groups
            rng.shuffle(groups)
        return group_yaml(cs2, groups), pmap

    canon_yaml, pmap = finish(contracts, False)
    yaml_text, _ = finish(contracts, True)
    dets = rng.sample(ctx.detectors, rng.randrange(1, 6))  # registration order is part of the draw
    op = {
        "op": "group",
        "contracts": sorted(set(c["cid"] for c in contracts)),
        "yaml": yaml_text,
        "canon_yaml": canon_yaml,
        "canon": canon_yaml,
        "paths": pmap,
        "cmap": {c["name"]: c["cid"] for c in contracts},
        "dets": dets,
    }
    return op
